"""Shared env-level workload: scenario sets, action policies and the episode loop with pluggable monitors.

A monitor is an object with optional methods
    on_env(env, cfg, meta)                 after construction
    after_reset(env, obs, ep)              after every reset
    before_step(env, action)               just before env.step
    after_step(env, action, result, t)     result = (obs, reward, terminated, truncated, info)
    on_exception(env, phase, action, exc)  step/reset raised (the episode is abandoned afterwards)
"""
from __future__ import annotations

import copy
import os
import random
import traceback

from . import corpus, envdrv, gen

SHIPPED_SINGLE = ["data_manipulation.yaml", "uc7_config.yaml", "uc7_config_tap003.yaml"]
SHIPPED_FOLDERS = ["scenario_with_placeholders", "mini_scenario_with_simulation_variation", "uc7_multiple_attack_variants"]
TEST_ASSETS = [
    "basic_switched_network.yaml", "basic_firewall.yaml", "dmz_network.yaml", "firewall_actions_network.yaml",
    "basic_c2_setup.yaml", "nmap_ping_scan_red_agent_config.yaml", "nmap_port_scan_red_agent_config.yaml",
    "nmap_network_service_recon_red_agent_config.yaml", "multi_agent_session.yaml", "shared_rewards.yaml",
    "basic_node_with_users.yaml", "basic_node_with_software_listening_ports.yaml", "install_and_configure_apps.yaml",
    "test_application_install.yaml", "nodes_with_initial_files.yaml", "action_penalty.yaml", "fixing_duration_one_item.yaml",
    "software_fixing_duration.yaml", "wireless_wan_network_config.yaml", "data_manipulation.yaml",
    "test_primaite_session.yaml",
]


def scenario_source(kind, name):
    """-> env_config accepted by PrimaiteGymEnv (dict or path for episode-scheduled folders), meta"""
    if kind == "shipped":
        return envdrv.quiet(corpus.shipped(name)), {"name": name}
    if kind == "asset":
        return envdrv.quiet(corpus.test_asset(name)), {"name": name}
    if kind == "folder":
        return os.path.join(corpus.PKG, name), {"name": name}
    if kind == "gen":
        cfg, meta = gen.gen(name["seed"], name.get("family"), name.get("knobs"))
        meta["name"] = f"gen-{name['seed']}"
        return cfg, meta
    if kind == "genfolder":  # an episode-scheduled folder written from a generated scenario: base file + one overlay per schedule entry
        import tempfile

        import yaml

        cfg, meta = gen.gen(name["seed"], name.get("family", "routed"), name.get("knobs"))
        cfg = copy.deepcopy(cfg)
        scripted = [a for a in cfg["agents"] if a.get("type") != "proxy-agent"]
        cfg["agents"] = [a for a in cfg["agents"] if a.get("type") == "proxy-agent"] + ["__SCRIPTED__"]
        d = tempfile.mkdtemp(prefix="pv-genfolder-", dir=os.environ.get("HOME"))
        base = yaml.safe_dump(cfg, sort_keys=False).replace("- __SCRIPTED__", "- *scripted")
        with open(os.path.join(d, "base.yaml"), "w") as f:
            f.write(base)
        entries = name.get("entries", 2)
        pattern = name.get("pattern")  # e.g. [0, 0, 1]: schedule entry k joins overlay_<pattern[k]>.yaml - consecutive entries may name the SAME file list
        sched = {}
        for k in range(entries):
            referenced = {c.get("options", {}).get("agent_name") for a in cfg["agents"] if isinstance(a, dict)
                          for c in (a.get("reward_function") or {}).get("reward_components", []) if c.get("type") == "shared-reward"}
            droppable = [a for a in scripted if a.get("ref") not in referenced]
            ags = copy.deepcopy(scripted if (k % 2 == 0 or not droppable) else [a for a in scripted if a is not droppable[-1]])
            body = yaml.safe_dump({"scripted": ags}, sort_keys=False).replace("scripted:", "scripted: &scripted", 1)
            with open(os.path.join(d, f"overlay_{k}.yaml"), "w") as f:
                f.write(body)
            sched[k] = [f"overlay_{k}.yaml"]
        if pattern:
            sched = {k: [f"overlay_{j}.yaml"] for k, j in enumerate(pattern)}
        with open(os.path.join(d, "schedule.yaml"), "w") as f:
            yaml.safe_dump({"base_scenario": "base.yaml", "schedule": sched}, f)
        meta = dict(meta, name=f"genfolder-{name['seed']}", schedule=[tuple(v) for v in sched.values()])
        return d, meta
    if kind == "fullmap":  # a shipped scenario whose defender may additionally do everything to everything
        cfg, meta = scenario_source("shipped", name["file"])
        cfg = gen.full_action_map(cfg, name.get("seed", 0), name.get("max_actions", 220))
        return cfg, dict(meta, name=f"{name['file']}+fullmap")
    if kind == "variant":  # a shipped / generated scenario whose scripted-agent settings are re-drawn from their documented ranges
        import random as _random

        from pv.checks.c19 import mutate_settings
        from pv.harness import Cov

        cfg, meta = scenario_source(*name["base"])
        cfg = mutate_settings(cfg, _random.Random(name["settings_seed"]), Cov(), None, p_nodes=name.get("p_nodes", 0.6),
                              p_repeat_scan=name.get("p_repeat_scan", 0.3))
        if name.get("defender_first"):  # the same agents, the RL agent declared first (before the agents whose rewards it shares)
            cfg["agents"] = sorted(cfg["agents"], key=lambda a: a.get("type") != "proxy-agent")
        meta = dict(meta, name=f"{meta['name']}~settings{name['settings_seed']}")
        return cfg, meta
    raise ValueError(kind)


def n_proxy_agents(cfg):
    if not isinstance(cfg, dict):
        return 1
    return sum(1 for a in cfg.get("agents", []) if a.get("type") == "proxy-agent")


class Policy:
    """action chooser; kinds: random | adversarial (prefer actions the mask disallows) | power (dwell in transitional
    states) | sweep (every action index in turn)"""

    def __init__(self, kind, seed):
        self.kind, self.rnd = kind, random.Random(seed)
        self.i = 0

    def choose(self, env, t):
        n = env.action_space.n
        if n <= 1:
            return 0
        k = self.kind
        if k == "idle":
            return 0
        if k == "sweep":
            self.i += 1
            return self.i % n
        if k == "adversarial":
            try:
                mask = env.game.action_mask(env._agent_name)
                bad = [i for i, m in enumerate(mask) if not m]
                if bad and self.rnd.random() < 0.7:
                    return self.rnd.choice(bad)
            except Exception:
                pass
            return self.rnd.randrange(n)
        if k == "power":
            amap = env.agent.action_manager.action_map
            pw = [i for i, (a, o) in amap.items() if a in ("node-shutdown", "node-startup", "node-reset", "node-service-restart",
                                                            "node-application-install", "node-application-remove", "node-service-disable",
                                                            "host-nic-disable", "node-file-delete", "node-service-pause")]
            if pw and self.rnd.random() < 0.45:
                return self.rnd.choice(pw)
            return self.rnd.randrange(n)
        if k == "disrupt":
            # interfere with whatever the scripted agents are doing: act on the nodes / software / accounts their recent actions named
            # (power-cycle the node, stop the service, change the password, block it) so that their actions FAIL in mid-chain
            amap = env.agent.action_manager.action_map
            names = set()
            for ag in env.game.agents.values():
                if ag is env.agent:
                    continue
                for h in ag.history[-3:]:
                    for key in ("node_name", "source_node", "target_router", "target_firewall_nodename"):
                        v = h.parameters.get(key) if isinstance(h.parameters, dict) else None
                        if v:
                            names.add(v)
                sn = getattr(ag, "starting_node", None)
                if isinstance(sn, str):
                    names.add(sn)
            mine = [i for i, (a, o) in amap.items() if isinstance(o, dict) and (o.get("node_name") in names or o.get("target_router") in names)]
            down = [i for i in mine if amap[i][0] in ("node-shutdown", "node-reset", "host-nic-disable", "node-account-change-password", "node-service-stop",
                                                      "node-application-remove", "node-application-close", "router-acl-add-rule", "node-service-disable")]
            up = [i for i in mine if amap[i][0] in ("node-startup", "host-nic-enable", "node-service-start", "node-service-enable", "router-acl-remove-rule")]
            r = self.rnd.random()
            hard = [i for i in down if amap[i][0] in ("node-shutdown", "node-reset", "host-nic-disable")]
            if hard and t < 40 and r < 0.2:  # early: knock out the node itself while the first stages of the chain run
                return self.rnd.choice(hard)
            if down and r < 0.3:
                return self.rnd.choice(down)
            if up and r < 0.5:
                return self.rnd.choice(up)
            return 0 if r < 0.92 else self.rnd.randrange(n)
        if k == "collide":
            # act on exactly the component (node + application / service / folder / file) another agent acted on in its last turn: scripted
            # agents repeat themselves, so the two actions tend to meet on the same component in the SAME step (the defender should act last)
            amap = env.agent.action_manager.action_map
            hot = set()
            for ag in env.game.agents.values():
                if ag is env.agent:
                    continue
                for h in ag.history[-2:]:
                    p_ = h.parameters if isinstance(h.parameters, dict) else {}
                    n_ = p_.get("node_name") or p_.get("source_node")
                    if n_:
                        hot.add((n_, p_.get("application_name") or p_.get("service_name") or p_.get("folder_name")))
                        hot.add((n_, None))
            same_comp = [i for i, (a, o) in amap.items() if isinstance(o, dict) and o.get("node_name") and
                         (o["node_name"], o.get("application_name") or o.get("service_name") or o.get("folder_name")) in hot and
                         (o.get("application_name") or o.get("service_name") or o.get("folder_name"))]
            same_node = [i for i, (a, o) in amap.items() if isinstance(o, dict) and (o.get("node_name"), None) in hot]
            r = self.rnd.random()
            if same_comp and r < 0.55:
                return self.rnd.choice(same_comp)
            if same_node and r < 0.75:
                return self.rnd.choice(same_node)
            return self.rnd.randrange(n) if r < 0.9 else 0
        if k == "scans":
            # two timed completions meeting on one host: damage a file, start a whole-node scan, and start a scan (or restore) of the file's
            # folder so that it is still running when the node scan completes (offsets jittered around that point); then the same the other
            # way round. Between the scripted actions the defender idles, so that nothing else explains what the observation shows.
            if not getattr(self, "_plan", None):
                amap = env.agent.action_manager.action_map
                net = env.game.simulation.network
                by = {}
                for i_, (a, o) in amap.items():
                    if isinstance(o, dict) and o.get("node_name"):
                        by.setdefault(o["node_name"], {}).setdefault(a, []).append(i_)
                hosts_ = [h for h, d in by.items() if "node-os-scan" in d and ("node-folder-scan" in d or "node-folder-restore" in d) and net.get_node_by_hostname(h) is not None]
                if not hosts_:
                    self._plan = [None] * 5
                else:
                    h = self.rnd.choice(hosts_)
                    d = by[h]
                    node = net.get_node_by_hostname(h)
                    D = int(getattr(node.config, "node_scan_duration", 10) or 0)
                    fverb = self.rnd.choice([v for v in ("node-folder-scan", "node-folder-restore") if v in d])
                    fi = self.rnd.choice(d[fverb])
                    fname = amap[fi][1].get("folder_name")
                    fo = node.file_system.get_folder(fname) if fname else None
                    dd = int(getattr(fo, "scan_duration", 3) or 0) if fo is not None else 3
                    harm = [x for v in ("node-file-corrupt", "node-file-delete") for x in d.get(v, []) if amap[x][1].get("folder_name") == fname]
                    gap = max(0, D - dd + self.rnd.randint(-1, dd))
                    plan = ([self.rnd.choice(harm)] if harm and self.rnd.random() < 0.8 else []) + [d["node-os-scan"][0]] + [None] * gap + [fi] + [None] * (dd + 2)
                    if self.rnd.random() < 0.3:  # the other order: folder operation first, node scan started while it runs
                        plan = ([self.rnd.choice(harm)] if harm else []) + [fi] + [None] * self.rnd.randint(0, max(0, dd - 1)) + [d["node-os-scan"][0]] + [None] * (D + 2)
                    self._plan = plan
            nxt = self._plan.pop(0)
            return 0 if nxt is None else nxt
        if k == "fscycle":
            # file-system histories across steps: delete a file / folder with the ordinary action, let ticks pass, bring it back (or delete it)
            # through a terminal command that reaches the file-system level requests no action type forms, create, repeat
            if not getattr(self, "_plan", None):
                amap = env.agent.action_manager.action_map
                cmds = [(i, o) for i, (a, o) in amap.items() if a == "node-send-local-command" and isinstance(o.get("command"), list) and o["command"][:1] == ["file_system"]
                        and o.get("password") == "admin"]
                plan = [None]
                if cmds:
                    i0, o0 = self.rnd.choice(cmds)
                    h = o0["node_name"]
                    mine = [(i, o) for i, o in cmds if o["node_name"] == h]
                    acts = [i for i, (a, o) in amap.items() if o.get("node_name") == h and a in ("node-file-delete", "node-file-create", "node-folder-create", "node-file-restore",
                                                                                                   "node-folder-restore", "node-file-corrupt")]
                    for _ in range(6):
                        if acts and self.rnd.random() < 0.6:
                            plan.append(self.rnd.choice(acts))
                        plan += [None] * self.rnd.randint(0, 2)
                        plan.append(self.rnd.choice(mine)[0])
                        plan += [None] * self.rnd.randint(0, 2)
                self._plan = plan
            nxt = self._plan.pop(0)
            return 0 if nxt is None else nxt
        if k == "refolder":
            # a path that changes hands: scan a folder (so that something has been SEEN at that path), remove the folder through a terminal command,
            # create a folder of the same name again (a new, never-scanned object at the old path), look, scan again
            if not getattr(self, "_plan", None):
                amap = env.agent.action_manager.action_map
                plan = [None]
                dels = [(i, o) for i, (a, o) in amap.items() if a == "node-send-local-command" and o.get("password") == "admin" and isinstance(o.get("command"), list)
                        and o["command"][:3] == ["file_system", "delete", "folder"]]
                self.rnd.shuffle(dels)
                for i_del, o in dels:
                    h, fo = o["node_name"], o["command"][3]
                    find = lambda act: [i for i, (a, oo) in amap.items() if a == act and oo.get("node_name") == h and oo.get("folder_name") == fo]  # noqa: E731
                    scans, creates, restores = find("node-folder-scan"), find("node-folder-create"), [i for i, (a, oo) in amap.items() if a == "node-send-local-command"
                                                                                                   and oo.get("node_name") == h and oo.get("password") == "admin"
                                                                                                   and oo.get("command") == ["file_system", "restore", "folder", fo]]
                    if not scans:
                        continue
                    wait = [None] * self.rnd.randint(4, 6)
                    plan += [scans[0]] + wait + [i_del] + [None] * self.rnd.randint(0, 2)
                    if creates:
                        plan += [creates[0]] + [None] * 3 + [scans[0]] + wait
                    if restores:
                        plan += [i_del, None, restores[0], None, None]
                self._plan = plan + [None] * 4
            nxt = self._plan.pop(0)
            return 0 if nxt is None else nxt
        if k == "nic":
            # toggle interfaces / ports while traffic is flowing: a NIC that carried traffic earlier in the SAME step and is then disabled
            amap = env.agent.action_manager.action_map
            tog = [i for i, (a, o) in amap.items() if a in ("host-nic-disable", "host-nic-enable", "network-port-disable", "network-port-enable")]
            net = env.game.simulation.network

            def nic_of(o):
                node = net.get_node_by_hostname(o.get("node_name") or o.get("target_nodename") or "")
                return None if node is None else node.network_interface.get(o.get("nic_num") or o.get("port_num"))

            off = [i for i in tog if amap[i][0].endswith("enable") and not amap[i][0].endswith("disable") and (lambda x: x is not None and not x.enabled)(nic_of(amap[i][1]))]
            busy = [i for i in tog if amap[i][0].endswith("disable") and (lambda x: x is not None and x.enabled and bool(getattr(x, "traffic", None)))(nic_of(amap[i][1]))]
            r = self.rnd.random()
            if off and r < 0.5:
                return self.rnd.choice(off)  # bring it back so that traffic can flow (and be cut) again
            if busy and r < 0.8:
                return self.rnd.choice(busy)  # an interface that carried traffic last step is likely to carry some this step too
            if tog and r < 0.85:
                return self.rnd.choice(tog)
            return self.rnd.randrange(n) if self.rnd.random() < 0.3 else 0
        if k == "churn":  # keep installing / removing applications (the request tree changes shape under the agents)
            amap = env.agent.action_manager.action_map
            ch = [i for i, (a, o) in amap.items() if a in ("node-application-install", "node-application-remove")]
            r = self.rnd.random()
            if ch and r < 0.6:
                return self.rnd.choice(ch)
            return self.rnd.randrange(n) if r < 0.85 else 0
        if k == "quiet":
            return 0 if self.rnd.random() < 0.7 else self.rnd.randrange(n)
        return self.rnd.randrange(n)


def run_env(env_cfg, meta, monitors, episodes, steps, policy_kind, seed, reset_seed=True, mid_reset_at=None, overrun=1,
            max_len=None):
    """Run `episodes` episodes. Returns dict(stats). Exceptions from step/reset are reported to monitors and end the run
    of that env (a crashed env is not stepped further)."""
    stats = {"steps": 0, "episodes": 0, "crashed": False, "actions": {}, "statuses": {}}
    cfg = env_cfg
    if isinstance(cfg, dict) and max_len is not None:
        cfg = copy.deepcopy(cfg)
        cfg["game"]["max_episode_length"] = max_len
    try:
        env = envdrv.make_env(cfg) if isinstance(cfg, dict) else _env_from_path(cfg)
    except Exception as e:
        for m in monitors:
            if hasattr(m, "on_exception"):
                m.on_exception(None, "construct", None, e)
        stats["crashed"] = True
        stats["crash"] = f"construct: {type(e).__name__}: {e}"
        return stats
    for m in monitors:
        if hasattr(m, "on_env"):
            m.on_env(env, cfg, meta)
    pol = Policy(policy_kind, seed)
    for ep in range(episodes):
        try:
            obs, info = env.reset(seed=(seed * 100 + ep) if reset_seed else None)
        except Exception as e:
            for m in monitors:
                if hasattr(m, "on_exception"):
                    m.on_exception(env, "reset", None, e)
            stats["crashed"] = True
            stats["crash"] = f"reset: {type(e).__name__}: {e}"
            return stats
        for m in monitors:
            if hasattr(m, "after_reset"):
                m.after_reset(env, obs, ep)
        mel = env.game.options.max_episode_length
        nsteps = min(steps, mel + overrun)
        for t in range(nsteps):
            if mid_reset_at is not None and ep == 0 and t == mid_reset_at:
                break
            a = pol.choose(env, t)
            for m in monitors:
                if hasattr(m, "before_step"):
                    m.before_step(env, a)
            try:
                res = env.step(a)
            except Exception as e:
                for m in monitors:
                    if hasattr(m, "on_exception"):
                        m.on_exception(env, "step", a, e)
                stats["crashed"] = True
                stats["crash"] = f"step: {type(e).__name__}: {e}"
                return stats
            stats["steps"] += 1
            try:
                item = env.agent.history[-1]
                stats["actions"][item.action] = stats["actions"].get(item.action, 0) + 1
                k = f"{item.action}:{item.response.status}"
                stats["statuses"][k] = stats["statuses"].get(k, 0) + 1
            except Exception:
                pass
            for m in monitors:
                if hasattr(m, "after_step"):
                    m.after_step(env, a, res, t)
        stats["episodes"] += 1
    try:
        env.close()
    except Exception as e:
        for m in monitors:
            if hasattr(m, "on_exception"):
                m.on_exception(env, "close", None, e)
    return stats


def _env_from_path(path):
    from primaite.session.environment import PrimaiteGymEnv

    return PrimaiteGymEnv(env_config=path)


def exc_site(e):
    """(exception type, file:function of the innermost primaite frame) - mechanism key for crashes"""
    tb = traceback.extract_tb(e.__traceback__)
    site = None
    for fr in tb:
        if "/primaite/" in fr.filename:
            site = f"{os.path.basename(fr.filename)}:{fr.name}"
    return type(e).__name__, site or (f"{os.path.basename(tb[-1].filename)}:{tb[-1].name}" if tb else "?")
