"""Generated scenario families (DESIGN 2.3): gen(seed, family) -> (scenario dict, meta).

Plain YAML-able dicts, so the real PrimaiteGame.from_config path is what runs. Well-formedness is by construction:
only what the documentation/schemas allow is emitted. `meta` describes what was generated (hosts, software, the
synthesised action map with tags) for the drivers and oracles.
"""
from __future__ import annotations

import copy
import random

from . import corpus
from .envdrv import proxy_agent

SERVER_SERVICES = ["database-service", "web-server", "dns-server", "ftp-server", "ntp-server"]
CLIENT_APPS = ["database-client", "dos-bot", "data-manipulation-bot", "ransomware-script"]
SERVICE_VERBS = ["scan", "stop", "start", "pause", "resume", "restart", "disable", "enable", "fix"]
APP_VERBS = ["execute", "scan", "close", "fix", "remove", "install"]
FILE_VERBS = ["scan", "delete", "restore", "corrupt", "access", "repair", "create", "checkhash"]
FOLDER_VERBS = ["scan", "repair", "restore", "create", "checkhash"]


def _host_software(rnd, kind, ips, knobs):
    """services/applications blocks for a host. ips: dict of well-known server addresses."""
    services, apps = [], []
    if kind == "server":
        for s in rnd.sample(SERVER_SERVICES, rnd.randint(1, 3)):
            d = {"type": s}
            if s == "database-service":
                opts = {}
                if ips.get("backup"):
                    opts["backup_server_ip"] = ips["backup"]
                if rnd.random() < 0.4:
                    opts["db_password"] = "pw"
                if opts:
                    d["options"] = opts
            if s == "dns-server":
                d["options"] = {"domain_mapping": {"arcd.com": ips.get("web", "192.168.1.12")}}
            if rnd.random() < 0.3:
                d.setdefault("options", {})["fixing_duration"] = rnd.choice([0, 1, 2, 3])
            services.append(d)
    else:
        for a in rnd.sample(CLIENT_APPS, rnd.randint(0, 3)):
            d = {"type": a}
            if a == "database-client":
                d["options"] = {"db_server_ip": ips.get("db", "192.168.1.14")}
            elif a == "dos-bot":
                d["options"] = {"target_ip_address": ips.get("db", "192.168.1.14"), "payload": "SPOOF DATA", "port_scan_p_of_success": rnd.choice([0.0, 0.8, 1.0])}
            elif a == "data-manipulation-bot":
                d["options"] = {"port_scan_p_of_success": rnd.choice([0.5, 1.0]), "data_manipulation_p_of_success": rnd.choice([0.5, 1.0]),
                                "payload": "DELETE", "server_ip": ips.get("db", "192.168.1.14")}
            elif a == "ransomware-script":
                d["options"] = {"server_ip": ips.get("db", "192.168.1.14"), "payload": "ENCRYPT"}
            apps.append(d)
        if rnd.random() < 0.5:
            services.append({"type": "ftp-client"})
    return services, apps


def gen(seed, family=None, knobs=None):
    rnd = corpus.rnd(seed, "gen")
    knobs = dict(knobs or {})
    family = family or rnd.choice(["lan", "routed", "routed", "dmz"])
    n = corpus.Net()
    dur = lambda: dict(start_up_duration=rnd.choice([0, 1, 2, 3]), shut_down_duration=rnd.choice([0, 1, 2, 3]))  # noqa: E731
    hosts = []  # (name, kind, ip, subnet index)
    routers, firewalls, switches = [], [], []
    bw = lambda: rnd.choice([None, None, 100, 200, 10, 1])  # noqa: E731
    if family == "lan":
        n.switch("sw1", 8, **dur())
        switches.append("sw1")
        subnets = [("192.168.1", None, "sw1")]
    elif family == "routed":
        nsub = rnd.choice([2, 3])
        ports = {i + 1: (f"192.168.{i + 1}.1", "255.255.255.0") for i in range(nsub)}
        acl = {}
        if rnd.random() < 0.6:
            acl[rnd.choice([0, 1, 5])] = {"action": "PERMIT"}
        else:
            for i, p in enumerate(["POSTGRES_SERVER", "DNS", "FTP", "HTTP", "NTP", "SSH"]):
                acl[10 + i] = {"action": "PERMIT", "src_port": p, "dst_port": p}
            acl[22] = {"action": "PERMIT", "src_port": "ARP", "dst_port": "ARP"}
            acl[23] = {"action": "PERMIT", "protocol": "ICMP"}
        if rnd.random() < 0.4:
            acl[rnd.choice([2, 3, 4])] = {"action": "DENY", "src_ip": "192.168.2.21", "dst_ip": "192.168.1.12"}
        n.router("r1", ports, acl=acl, **dur())
        routers.append("r1")
        subnets = []
        for i in range(nsub):
            sw = f"sw{i + 1}"
            n.switch(sw, 8, **dur())
            switches.append(sw)
            n._swport[sw] = 8
            n.link("r1", i + 1, sw, 8, bw())
            n._swport[sw] = 0
            subnets.append((f"192.168.{i + 1}", f"192.168.{i + 1}.1", sw))
    elif family == "dmz":
        permit_all = {0: {"action": "PERMIT"}}
        lists = ("internal_inbound_acl", "internal_outbound_acl", "dmz_inbound_acl", "dmz_outbound_acl", "external_inbound_acl", "external_outbound_acl")
        acl = {k: copy.deepcopy(permit_all) for k in lists}
        if rnd.random() < 0.5:
            acl[rnd.choice(lists)][1] = {"action": "DENY", "protocol": "TCP", "dst_port": "HTTP"}
        with_dmz = rnd.random() < 0.6
        n.firewall("fw1", external=("192.168.3.1", "255.255.255.0"), internal=("192.168.1.1", "255.255.255.0"),
                   dmz=("192.168.2.1", "255.255.255.0") if with_dmz else None, acl=acl, **dur())
        firewalls.append("fw1")
        subnets = []
        plan = [(1, 2), (3, 1)] + ([(2, 3)] if with_dmz else [])  # (subnet third octet, firewall port id)
        for octet, port in plan:
            sw = f"sw{octet}"
            n.switch(sw, 8, **dur())
            switches.append(sw)
            n.link("fw1", port, sw, 8, bw())
            subnets.append((f"192.168.{octet}", f"192.168.{octet}.1", sw))
            n._swport[sw] = 0
    elif family == "wlan":
        # two LANs joined over the air by a pair of wireless routers (wireless access point = port 1, wired router interface = port 2)
        rnd_wl = random.Random(f"{seed}-wlan-family")
        freq = rnd_wl.choice(["WIFI_2_4", "WIFI_5"])
        acl = {rnd_wl.choice([1, 3]): {"action": "PERMIT"}}
        if rnd_wl.random() < 0.4:
            acl[0] = {"action": "DENY", "protocol": "TCP", "dst_port": "FTP"}
        subnets = []
        for i in (1, 2):
            wr, sw, other = f"wr{i}", f"sw{i}", 3 - i
            node = {"type": "wireless-router", "hostname": wr, **dur(),
                    "router_interface": {"ip_address": f"192.168.{i}.1", "subnet_mask": "255.255.255.0"},
                    "wireless_access_point": {"ip_address": f"192.168.9.{i}", "subnet_mask": "255.255.255.0", "frequency": freq},
                    "acl": copy.deepcopy(acl)}
            if i == 1 or rnd_wl.random() < 0.6:
                node["routes"] = [{"address": f"192.168.{other}.0", "subnet_mask": "255.255.255.0", "next_hop_ip_address": f"192.168.9.{other}", "metric": 0}]
            else:
                node["default_route"] = {"next_hop_ip_address": f"192.168.9.{other}"}
            n.nodes.append(node)
            routers.append(wr)
            n.switch(sw, 8, **dur())
            switches.append(sw)
            n.link(wr, 2, sw, 8, bw())
            n._swport[sw] = 0
            subnets.append((f"192.168.{i}", f"192.168.{i}.1", sw))
        if rnd_wl.random() < 0.5:
            n.extra["airspace"] = {"frequency_max_capacity_mbps": {freq: rnd_wl.choice([0.05, 1.0, 50.0])}}
    else:
        raise ValueError(family)

    # well-known server addresses live in the first subnet
    ips = {"web": f"{subnets[0][0]}.12", "db": f"{subnets[0][0]}.14", "backup": f"{subnets[0][0]}.16", "dns": f"{subnets[0][0]}.12"}
    want = [("web_srv", "server", ips["web"], 0, ["web-server", "dns-server"]),
            ("db_srv", "server", ips["db"], 0, ["database-service"])]
    if rnd.random() < 0.6:
        want.append(("bak_srv", "server", ips["backup"], 0, ["ftp-server"]))
    else:
        ips["backup"] = None
    nclients = max(rnd.randint(1, 3), int(knobs.get("min_clients", 0)))
    rnd_k = random.Random(f"{seed}-host-kinds")
    for i in range(nclients):
        si = rnd.randrange(len(subnets))
        kind_i = rnd.choice(["computer", "computer", "server"])
        if kind_i == "computer" and i > 0 and rnd_k.random() < 0.2:
            kind_i = "printer"  # the third host type of the documentation; same software model as a computer
        want.append((f"pc_{i + 1}", kind_i, f"{subnets[si][0]}.{21 + i}", si, None))
    # C2 suite (separate random stream): a beacon on one client pointing at a C2 server application on the web server
    rnd_c2 = random.Random(f"{seed}-c2-suite")
    c2_beacon_host = c2_server_host = c2_server_ip = None
    if knobs.get("c2", True) and rnd_c2.random() < 0.35:
        c2_beacon_host, c2_server_host, c2_server_ip = "pc_1", "web_srv", ips["web"]
    meta_hosts = {}
    same_as_previous = {}
    for name, kind, ip, si, fixed in want:
        prefix, gw, sw = subnets[si]
        kw = dict(dur())
        if fixed is not None:
            services = []
            for s in fixed:
                d = {"type": s}
                if s == "database-service":
                    o = {}
                    if ips["backup"]:
                        o["backup_server_ip"] = ips["backup"]
                    if o:
                        d["options"] = o
                if s == "dns-server":
                    d["options"] = {"domain_mapping": {"arcd.com": ips["web"]}}
                services.append(d)
            apps = [{"type": "database-client", "options": {"db_server_ip": ips["db"]}}] if "web-server" in fixed else []
            if "database-service" in fixed and ips["backup"]:
                pass
        else:
            services, apps = _host_software(rnd, kind, ips, knobs)
            if kind == "computer" and not any(a["type"] == "database-client" for a in apps) and rnd.random() < 0.7:
                apps.append({"type": "database-client", "options": {"db_server_ip": ips["db"]}})
        # system software of the node type re-listed with its own options (the scenario's value wins over node-level defaults)
        rnd_s = random.Random(f"{seed}-{name}-system-software-options")
        if rnd_s.random() < 0.3 and not any(x["type"] == "dns-client" for x in services):
            services = services + [{"type": "dns-client", "options": {"dns_server": ips["db"] if rnd_s.random() < 0.7 else ips["dns"]}}]
        if rnd_s.random() < 0.25 and not any(x["type"] == "ntp-client" for x in services):
            services = services + [{"type": "ntp-client", "options": {"ntp_server_ip": ips["web"]}}]
        if kind == "server" and rnd_s.random() < 0.3 and not any(x["type"] == "ftp-client" for x in services):
            # a dependency of other services (database backups) declared explicitly, with options of its own, before them
            services = [{"type": "ftp-client", "options": {"fixing_duration": rnd_s.choice([1, 4, 7]), "listen_on_ports": [631]}}] + services
        if services and rnd_s.random() < 0.3:
            services = [dict(x, options=dict(x.get("options") or {}, fixing_duration=rnd_s.choice([0, 1, 3, 4]))) if rnd_s.random() < 0.5 else x for x in services]
        # two hosts of the same kind configured identically (in a YAML file: one block written once and referenced twice)
        if fixed is None and name != c2_beacon_host:
            if same_as_previous.get(kind) and rnd_s.random() < 0.35:
                services, apps = copy.deepcopy(same_as_previous[kind])
            same_as_previous[kind] = (copy.deepcopy(services), copy.deepcopy(apps))
        if knobs.get("c2", True):
            if name == c2_beacon_host:
                apps = apps + [{"type": "c2-beacon", "options": {"c2_server_ip_address": c2_server_ip, "keep_alive_frequency": rnd_c2.choice([2, 3, 5])}}]
                if not any(a["type"] == "ransomware-script" for a in apps):
                    apps = apps + [{"type": "ransomware-script", "options": {"server_ip": ips["db"], "payload": "ENCRYPT"}}]
            if name == c2_server_host:
                apps = apps + [{"type": "c2-server"}]
        if services:
            kw["services"] = services
        if apps:
            kw["applications"] = apps
        kw["dns_server"] = ips["dns"]
        folders = []
        if rnd.random() < 0.6:
            folders.append({"folder_name": "docs", "files": [{"file_name": "a.txt"}] + ([{"file_name": "b.pdf", "size": 1000}] if rnd.random() < 0.5 else [])})
        if rnd.random() < 0.3:
            folders.append({"folder_name": "empty"})
        if folders:
            kw["folders"] = folders
        if rnd.random() < 0.4:
            kw["users"] = [{"username": "jane", "password": "pw1", "is_admin": rnd.random() < 0.5}]
        if kind == "server" and fixed is None and rnd.random() < 0.5:
            # additional interfaces, written in non-ascending textual order
            extra = {3: {"ip_address": f"10.{si + 1}.3.{10 + len(hosts)}", "subnet_mask": "255.255.255.0"},
                     2: {"ip_address": f"10.{si + 1}.2.{10 + len(hosts)}", "subnet_mask": "255.255.255.0"}}
            kw["network_interfaces"] = extra
        # further documented options that the shipped examples leave at their defaults (own random stream)
        rnd_w = random.Random(f"{seed}-{name}-more-options")
        if rnd_w.random() < 0.4:
            kw["node_scan_duration"] = rnd_w.choice([0, 1, 2, 4])
        if rnd_w.random() < (0.85 if name.startswith("pc_") else 0.4) and not any(a["type"] == "web-browser" for a in apps):
            # clients browse for real (most of them a page that exists): green users' requests then succeed unless something is in the way
            wb = {"type": "web-browser", "options": {"target_url": rnd_w.choice(["http://arcd.com/users/", "http://arcd.com/", "http://arcd.com/", "http://arcd.com/missing/"])}}
            if rnd_w.random() < 0.3:
                wb["options"]["listen_on_ports"] = ["SMB"]
            kw["applications"] = list(kw.get("applications", [])) + [wb]
        for sv in kw.get("services", []):
            if sv["type"] in ("database-service", "ftp-server") and rnd_w.random() < 0.25:
                sv["options"] = dict(sv.get("options") or {}, listen_on_ports=[631])
        for ap in kw.get("applications", []):
            if ap["type"] == "data-manipulation-bot" and rnd_w.random() < 0.35:
                ap["options"] = dict(ap.get("options") or {}, repeat=False)  # one-shot attack: stays SUCCEEDED / FAILED afterwards
            if ap["type"] == "dos-bot" and rnd_w.random() < 0.5:
                ap["options"] = dict(ap.get("options") or {}, dos_intensity=rnd_w.choice([0.25, 1.0]), max_sessions=rnd_w.choice([3, 1000]))
        if fixed is None and name != c2_beacon_host and (rnd_w.random() < 0.12 or (knobs.get("off_host") and name == "pc_2")):
            kw["operating_state"] = "OFF"  # a host that is powered off when the episode starts
        n.host(name, ip, gw=gw, kind=kind, **kw)
        n.to_switch(sw, name, bandwidth=bw())
        meta_hosts[name] = {"kind": kind, "ip": ip, "services": [s["type"] for s in services], "apps": [a["type"] for a in apps if a["type"] != "web-browser"],
                            "folders": {f["folder_name"]: [x["file_name"] for x in f.get("files", [])] for f in folders},
                            "users": [u["username"] for u in kw.get("users", [])]}
        hosts.append(name)

    # ------------------------------------------------------------------ defender: action map over everything addressable
    amap = [("do-nothing", {}, "valid")]

    def add(a, o, tag="valid"):
        amap.append((a, o, tag))

    for h in hosts:
        mh = meta_hosts[h]
        for a in ("node-os-scan", "node-shutdown", "node-startup", "node-reset"):
            add(a, {"node_name": h})
        for s in mh["services"] + (["dns-client"] if rnd.random() < 0.3 else []):
            for v in rnd.sample(SERVICE_VERBS, rnd.randint(3, len(SERVICE_VERBS))):
                add(f"node-service-{v}", {"node_name": h, "service_name": s})
        for ap in mh["apps"] + ["web-browser"]:
            for v in rnd.sample(APP_VERBS, rnd.randint(2, len(APP_VERBS))):
                if v == "execute" and ap == "web-browser" and rnd.random() < 0.5:
                    continue
                if v == "execute" and ap in ("c2-server", "nmap"):
                    continue  # these applications define no 'execute' operation: the action type cannot address them
                add(f"node-application-{v}", {"node_name": h, "application_name": ap})
        for fo, files in mh["folders"].items():
            for v in rnd.sample(FOLDER_VERBS, rnd.randint(2, len(FOLDER_VERBS))):
                add(f"node-folder-{v}", {"node_name": h, "folder_name": fo})
            for fi in files:
                for v in rnd.sample(FILE_VERBS, rnd.randint(3, len(FILE_VERBS))):
                    add(f"node-file-{v}", {"node_name": h, "folder_name": fo, "file_name": fi})
        if rnd.random() < 0.5:
            add("node-file-create", {"node_name": h, "folder_name": "new", "file_name": "n.txt"})
            add("node-folder-create", {"node_name": h, "folder_name": "new2"})
        add("host-nic-disable", {"node_name": h, "nic_num": 1})
        add("host-nic-enable", {"node_name": h, "nic_num": 1})
        if rnd.random() < 0.3:
            add("node-account-change-password", {"node_name": h, "username": "admin", "current_password": "admin", "new_password": "x"})
            add("node-account-add-user", {"node_name": h, "username": "bob", "password": "b", "is_admin": False})
            add("node-account-disable-user", {"node_name": h, "username": "bob"})
    # nmap actions from client hosts (scans over a subnet: order-sensitive code paths)
    for h in [x for x in hosts if x.startswith("pc_")][:2]:
        subnet_ips = [meta_hosts[x]["ip"] for x in hosts][:4] + [subnets[0][0] + ".250"]
        add("node-nmap-ping-scan", {"source_node": h, "target_ip_address": subnet_ips})
        add("node-nmap-ping-scan", {"source_node": h, "target_ip_address": subnets[0][0] + ".0/28"})
        add("node-nmap-port-scan", {"source_node": h, "target_ip_address": subnet_ips[:2], "target_port": [80, 5432, 21], "target_protocol": ["tcp", "udp"]})
        add("node-network-service-recon", {"source_node": h, "target_ip_address": subnet_ips[:3], "target_port": 5432, "target_protocol": "tcp"})
    # sessions, remote / local commands, configure-* and the C2 server's actions (own random stream)
    rnd_x = random.Random(f"{seed}-session-configure-c2-actions")
    ip_of = {h: meta_hosts[h]["ip"] for h in hosts}
    for h in hosts:
        others = [x for x in hosts if x != h]
        if not others or rnd_x.random() < 0.4:
            continue
        tgt = ip_of[rnd_x.choice(others)]
        add("node-session-remote-login", {"node_name": h, "username": "admin", "password": rnd_x.choice(["admin", "admin", "wrong"]), "remote_ip": tgt})
        add("node-send-remote-command", {"node_name": h, "remote_ip": tgt, "command": rnd_x.choice([["file_system", "create", "folder", "rc"],
                                                                                                      ["service", "dns-client", "stop"], ["os", "scan"]])})
        fols_h = meta_hosts[h]["folders"]
        if fols_h:  # terminal commands reach request paths no action type forms (file-system level delete / restore)
            fo_ = rnd_x.choice(sorted(fols_h))
            for fi_ in fols_h[fo_][:1]:
                add("node-send-local-command", {"node_name": h, "username": "admin", "password": "admin", "command": ["file_system", "restore", "file", fo_, fi_]})
                add("node-send-local-command", {"node_name": h, "username": "admin", "password": "admin", "command": ["file_system", "delete", "file", fo_, fi_]})
            add("node-send-local-command", {"node_name": h, "username": "admin", "password": "admin", "command": ["file_system", "delete", "folder", fo_]})
            add("node-send-local-command", {"node_name": h, "username": "admin", "password": "admin", "command": ["file_system", "restore", "folder", fo_]})
        add("node-session-remote-logoff", {"node_name": h, "remote_ip": tgt})
        add("node-send-local-command", {"node_name": h, "username": "admin", "password": rnd_x.choice(["admin", "nope"]),
                                        "command": ["file_system", "create", "file", "lc", "f.txt", False]})
        add("node-account-change-password", {"node_name": h, "username": "admin", "current_password": "admin", "new_password": "admin2"})
    for h in hosts:
        apps_h = meta_hosts[h]["apps"]
        if "database-client" in apps_h or rnd_x.random() < 0.15:
            add("configure-database-client", {"node_name": h, "server_ip_address": ips["db"], "server_password": rnd_x.choice([None, "pw"])},
                "valid" if "database-client" in apps_h else "missing")
        if "dos-bot" in apps_h or rnd_x.random() < 0.15:
            add("configure-dos-bot", {"node_name": h, "target_ip_address": ips["web"], "target_port": "HTTP", "repeat": rnd_x.random() < 0.5,
                                      "max_sessions": rnd_x.choice([1, 5, 1000])}, "valid" if "dos-bot" in apps_h else "missing")
        if "ransomware-script" in apps_h or rnd_x.random() < 0.15:
            add("configure-ransomware-script", {"node_name": h, "server_ip_address": ips["db"], "payload": "ENCRYPT"},
                "valid" if "ransomware-script" in apps_h else "missing")
    if c2_server_host:
        add("configure-c2-beacon", {"node_name": c2_beacon_host, "c2_server_ip_address": c2_server_ip, "keep_alive_frequency": rnd_x.choice([1, 3, 5]),
                                    "masquerade_protocol": "tcp", "masquerade_port": "HTTP"})
        add("node-application-execute", {"node_name": c2_beacon_host, "application_name": "c2-beacon"})
        add("c2-server-ransomware-configure", {"node_name": c2_server_host, "server_ip_address": ips["db"], "payload": "ENCRYPT"})
        add("c2-server-ransomware-launch", {"node_name": c2_server_host})
        add("c2-server-terminal-command", {"node_name": c2_server_host, "commands": [["file_system", "create", "folder", "c2"]], "ip_address": None,
                                           "username": "admin", "password": "admin"})
        add("c2-server-data-exfiltrate", {"node_name": c2_server_host, "username": "admin", "password": "admin", "target_ip_address": ips["db"],
                                          "target_file_name": "database.db", "target_folder_name": "database", "exfiltration_folder_name": "loot"})
    else:
        add("c2-server-ransomware-launch", {"node_name": hosts[0]}, "missing")
    # deliberately missing / misspelt targets
    h0 = hosts[0]
    add("node-service-stop", {"node_name": h0, "service_name": "no-such-service"}, "missing")
    add("node-application-execute", {"node_name": "no-such-node", "application_name": "web-browser"}, "missing")
    add("node-file-scan", {"node_name": h0, "folder_name": "nofolder", "file_name": "nofile"}, "missing")
    add("host-nic-disable", {"node_name": h0, "nic_num": 7}, "missing")
    add("node-shutdown", {"node_name": "ghost"}, "missing")
    all_ips = [meta_hosts[h]["ip"] for h in hosts]
    for r in routers:
        for _ in range(rnd.randint(2, 5)):
            add("router-acl-add-rule", {"target_router": r, "position": rnd.randrange(0, 10), "permission": rnd.choice(["PERMIT", "DENY"]),
                                        "src_ip": rnd.choice(all_ips + ["ALL"]), "src_wildcard": rnd.choice(["NONE", "NONE", "0.0.0.255"]),
                                        "src_port": rnd.choice(["ALL", "HTTP", "POSTGRES_SERVER"]), "dst_ip": rnd.choice(all_ips + ["ALL"]),
                                        "dst_wildcard": "NONE", "dst_port": rnd.choice(["ALL", "HTTP", "POSTGRES_SERVER"]),
                                        "protocol_name": rnd.choice(["ALL", "TCP", "UDP", "ICMP"])})
        for p in rnd.sample(range(0, 10), 3):
            add("router-acl-remove-rule", {"target_router": r, "position": p})
        add("network-port-disable", {"target_nodename": r, "port_num": 1})
        add("network-port-enable", {"target_nodename": r, "port_num": 1})
        for a in ("node-shutdown", "node-startup"):
            add(a, {"node_name": r})
    for fw in firewalls:
        for _ in range(rnd.randint(2, 5)):
            add("firewall-acl-add-rule", {"target_firewall_nodename": fw, "firewall_port_name": rnd.choice(["internal", "dmz", "external"]),
                                          "firewall_port_direction": rnd.choice(["inbound", "outbound"]), "position": rnd.randrange(0, 10),
                                          "permission": rnd.choice(["PERMIT", "DENY"]), "src_ip": rnd.choice(all_ips + ["ALL"]),
                                          "src_wildcard": "NONE", "src_port": rnd.choice(["ALL", "HTTP"]), "dst_ip": rnd.choice(all_ips + ["ALL"]),
                                          "dst_wildcard": "NONE", "dst_port": rnd.choice(["ALL", "HTTP", "POSTGRES_SERVER"]),
                                          "protocol_name": rnd.choice(["ALL", "TCP", "ICMP"])})
        add("firewall-acl-remove-rule", {"target_firewall_nodename": fw, "firewall_port_name": "internal", "firewall_port_direction": "inbound", "position": 0})
        add("network-port-disable", {"target_nodename": fw, "port_num": 2})
        add("network-port-enable", {"target_nodename": fw, "port_num": 2})
    for sw in switches[:1]:
        add("network-port-disable", {"target_nodename": sw, "port_num": 1})
        add("network-port-enable", {"target_nodename": sw, "port_num": 1})
    max_actions = knobs.get("max_actions", 160)
    if len(amap) > max_actions:
        keep = [amap[0]] + rnd.sample(amap[1:], max_actions - 1)
        amap = keep
    # one-way traffic (appended after the sampling above and drawn from an own stream: older seeds keep the rest of their map): a ping scan
    # of addresses nobody owns in ANOTHER subnet - the echo requests do leave through the gateway, no reply ever comes back
    rnd_n = random.Random(f"{seed}-nmap-one-way-traffic")
    pcs = [x for x in hosts if x.startswith("pc_")]
    if pcs and rnd_n.random() < 0.6:
        h = rnd_n.choice(pcs)
        own = meta_hosts[h]["ip"].rsplit(".", 1)[0]
        far = [sn[0] for sn in subnets if sn[0] != own]
        tgt = [(rnd_n.choice(far) if far else "10.99.99") + ".250"]
        if rnd_n.random() < 0.5:
            tgt.append("172.31.7.7")
        amap.append(("node-nmap-ping-scan", {"source_node": h, "target_ip_address": tgt}, "valid"))
    # terminal commands may carry ANY request of the node's own tree, not only file-system ones (own stream, appended after the sampling)
    rnd_t = random.Random(f"{seed}-terminal-commands-over-the-request-tree")
    for h in rnd_t.sample(hosts, min(len(hosts), rnd_t.choice([1, 2]))):
        others = [meta_hosts[x]["ip"] for x in hosts if x != h] or [meta_hosts[h]["ip"]]
        pool = [["service", "user-session-manager", "remote_login", "admin", "admin", rnd_t.choice(others)],
                ["service", "user-session-manager", "remote_login", "admin", "wrong", rnd_t.choice(others)],
                ["service", "user-manager", "add_user", "carol", "c", False],
                ["service", "user-manager", "change_password", "admin", "admin", "admin"],
                ["software_manager", "application", "install", "nmap"],
                ["network_interface", 1, "disable"], ["network_interface", 1, "enable"], ["os", "scan"], ["scan"],
                ["service", "dns-client", "scan"], ["application", "web-browser", "scan"]]
        for cmd in rnd_t.sample(pool, rnd_t.randint(2, 4)):
            amap.append(("node-send-local-command", {"node_name": h, "username": "admin", "password": "admin", "command": cmd}, "valid"))

    # ------------------------------------------------------------------ defender: observation space over everything
    requires_scan = {k: rnd.random() < 0.5 for k in ("file_system", "services", "applications")}
    if knobs.get("requires_scan") is not None:
        requires_scan = {k: bool(knobs["requires_scan"]) for k in requires_scan}
    host_obs = []
    for h in hosts:
        mh = meta_hosts[h]
        ho = {"hostname": h}
        svcs = [{"service_name": s} for s in mh["services"]]
        if svcs:
            ho["services"] = svcs[: rnd.randint(1, len(svcs))]
        appsl = [{"application_name": a} for a in mh["apps"] + ["web-browser"]]
        ho["applications"] = appsl[: rnd.randint(1, len(appsl))]
        fol = [{"folder_name": fo, "files": [{"file_name": fi} for fi in fis]} for fo, fis in mh["folders"].items()]
        if "database-service" in mh["services"]:
            fol.append({"folder_name": "database", "files": [{"file_name": "database.db"}]})
        if fol:
            ho["folders"] = fol
        rnd_h = random.Random(f"{seed}-{h}-host-level-obs-options")
        for key in ("file_system_requires_scan", "services_requires_scan", "applications_requires_scan"):
            if rnd_h.random() < 0.2:
                ho[key] = rnd_h.random() < 0.5  # the same switch given at the host level (wins over the nodes-level value)
        if rnd_h.random() < 0.15:
            ho["include_num_access"] = rnd_h.random() < 0.5
        if rnd_h.random() < 0.15:
            ho["num_services"] = rnd_h.choice([1, 2, 4])
        host_obs.append(ho)
    if rnd.random() < 0.3:
        host_obs.append({"hostname": "no_such_host"})
    include_nmne = knobs.get("include_nmne", rnd.random() < 0.5)
    capture_nmne = knobs.get("capture_nmne", include_nmne or rnd.random() < 0.3)
    nodes_opts = {
        "hosts": host_obs,
        "num_services": rnd.choice([1, 2, 3]), "num_applications": rnd.choice([1, 2, 3]), "num_folders": rnd.choice([1, 2]),
        "num_files": rnd.choice([1, 2]), "num_nics": rnd.choice([1, 2]),
        "include_nmne": include_nmne, "include_num_access": (rnd.random() < 0.5) if knobs.get("include_num_access") is None else bool(knobs["include_num_access"]),
        "file_system_requires_scan": requires_scan["file_system"], "services_requires_scan": requires_scan["services"],
        "applications_requires_scan": requires_scan["applications"], "include_users": rnd.random() < 0.7,
        "num_ports": rnd.choice([0, 2, 3]), "ip_list": all_ips, "wildcard_list": ["0.0.0.255", "0.0.0.1"],
        "port_list": ["HTTP", "POSTGRES_SERVER", "ARP", "DNS", "FTP", "NTP", "SSH"], "protocol_list": ["ICMP", "TCP", "UDP"], "num_rules": 10,
    }
    if rnd.random() < 0.6:
        nodes_opts["monitored_traffic"] = {"icmp": ["NONE"], "tcp": rnd.sample(["DNS", "HTTP", "POSTGRES_SERVER", "FTP"], 2)}
    rnd_o = random.Random(f"{seed}-node-level-obs-overrides")  # separate stream: older seeds keep their scenarios otherwise
    for key in ("num_services", "num_applications", "num_folders", "num_files", "num_nics"):
        if rnd_o.random() < 0.12:
            nodes_opts[key] = 0  # a valid count: that part of every host observation is absent
    for key in ("ip_list", "wildcard_list", "port_list", "protocol_list"):
        if rnd_o.random() < 0.1:
            nodes_opts[key] = []  # nothing to encode ACL fields against: every specified field reads as 'unknown / any'
        elif rnd_o.random() < 0.1:
            nodes_opts[key] = nodes_opts[key][:1]

    def acl_overrides(d):
        if rnd_o.random() < 0.4:
            d["num_rules"] = rnd_o.choice([2, 4, 12])
        if rnd_o.random() < 0.3:
            d["include_users"] = rnd_o.random() < 0.5
        if rnd_o.random() < 0.3:
            d["ip_list"] = rnd_o.sample(all_ips, max(1, len(all_ips) // 2))
        return d

    if routers:
        robs = []
        for r in routers:
            d = acl_overrides({"hostname": r})
            if rnd_o.random() < 0.5:  # explicit port list: any ids (existing or not), count smaller or larger than num_ports
                ids = rnd_o.sample([1, 2, 3, 4, 5, 6], rnd_o.randint(1, 4))
                d["ports"] = [{"port_id": i} for i in ids]
            if rnd_o.random() < 0.4:
                d["num_ports"] = rnd_o.choice([1, 2, 3, 5])
            robs.append(d)
        nodes_opts["routers"] = robs
    if firewalls:
        nodes_opts["firewalls"] = [acl_overrides({"hostname": f}) for f in firewalls]
    comps = [{"type": "nodes", "label": "NODES", "options": nodes_opts}]
    link_refs = [f"{l['endpoint_a_hostname']}:eth-{l['endpoint_a_port']}<->{l['endpoint_b_hostname']}:eth-{l['endpoint_b_port']}" for l in n.links]
    if rnd.random() < 0.5:  # the documented reference may name the endpoints in either order
        link_refs = ["<->".join(r.split("<->")[::-1]) if rnd.random() < 0.3 else r for r in link_refs]
    comps.append({"type": "links", "label": "LINKS", "options": {"link_references": link_refs}})
    if rnd.random() < 0.5:
        comps.append({"type": "none", "label": "ICS", "options": {}})
    obs = {"type": "custom", "options": {"components": comps}}
    flatten = knobs.get("flatten", rnd.random() < 0.5)
    masking = knobs.get("masking", rnd.random() < 0.5)
    rewards = [{"type": "database-file-integrity", "weight": 0.4, "options": {"node_hostname": "db_srv", "folder_name": "database", "file_name": "database.db"}},
               {"type": "action-penalty", "weight": 0.1, "options": {"action_penalty": -0.5, "do_nothing_penalty": 0.0}}]
    agents = []
    clients = [h for h in hosts if h.startswith("pc_")]
    greens = []
    for i, c in enumerate(clients[: rnd.randint(0, 2)]):
        has_db = "database-client" in meta_hosts[c]["apps"]
        am = [("do-nothing", {}), ("node-application-execute", {"node_name": c, "application_name": "web-browser"})]
        if has_db:
            am.append(("node-application-execute", {"node_name": c, "application_name": "database-client"}))
        probs = [rnd.random() for _ in am]
        if rnd.random() < 0.3:
            probs[rnd.randrange(len(probs))] = 0.0
        if sum(probs) == 0:
            probs[0] = 1.0
        tot = sum(probs)
        probs = [p / tot for p in probs]
        probs[-1] = max(0.0, 1.0 - sum(probs[:-1]))  # never a (rounding-sized) negative value: that would not be a well-formed table
        g = {"ref": f"green_{c}", "team": "GREEN", "type": "probabilistic-agent",
             "agent_settings": {"action_probabilities": {i: p for i, p in enumerate(probs)}},
             "action_space": {"action_map": {i: {"action": a, "options": o} for i, (a, o) in enumerate(am)}},
             "reward_function": {"reward_components": [{"type": "webpage-unavailable-penalty", "weight": 0.25, "options": {"node_hostname": c}},
                                                       {"type": "green-admin-database-unreachable-penalty", "weight": 0.05, "options": {"node_hostname": c}}]}}
        agents.append(g)
        greens.append(g["ref"])
        rewards.append({"type": "shared-reward", "weight": 1.0, "options": {"agent_name": g["ref"]}})
    red_nodes = [c for c in clients if "data-manipulation-bot" in meta_hosts[c]["apps"]]
    if red_nodes and rnd.random() < 0.8:
        f = rnd.randint(2, 12)
        agents.append({"ref": "red_dm", "team": "RED", "type": "red-database-corrupting-agent",
                       "agent_settings": {"possible_start_nodes": red_nodes, "target_application": "data-manipulation-bot",
                                          "start_step": rnd.randint(0, 10), "frequency": f, "variance": rnd.randint(0, f - 1)}})
    dos_nodes = [c for c in clients if "dos-bot" in meta_hosts[c]["apps"]]
    if dos_nodes and rnd.random() < 0.6:
        f = rnd.randint(2, 10)
        agents.append({"ref": "red_periodic", "team": "RED", "type": "periodic-agent",
                       "agent_settings": {"possible_start_nodes": dos_nodes, "target_application": "dos-bot", "start_step": rnd.randint(1, 8),
                                          "start_variance": rnd.randint(0, 1), "frequency": f, "variance": rnd.randint(0, f - 1),
                                          "max_executions": rnd.choice([2, 5, 999])}})
    if rnd.random() < knobs.get("p_random_agent", 0.25) and clients:
        c = rnd.choice(clients)
        am = [("do-nothing", {}), ("node-application-execute", {"node_name": c, "application_name": "web-browser"}),
              ("node-os-scan", {"node_name": c})]
        agents.append({"ref": "green_random", "team": "GREEN", "type": "random-agent",
                       "action_space": {"action_map": {i: {"action": a, "options": o} for i, (a, o) in enumerate(am)}}})
    defender = proxy_agent("defender", [(a, o) for a, o, _ in amap], rewards, obs=obs, flatten=flatten, masking=masking)
    order = knobs.get("defender_position", rnd.choice(["last", "first"]))
    agents = agents + [defender] if order == "last" else [defender] + agents
    nmne = {"capture_nmne": True, "nmne_capture_keywords": ["DELETE", "ENCRYPT"]} if capture_nmne else None
    cfg = n.scenario(agents=agents, max_len=knobs.get("max_len", 48), seed=knobs.get("game_seed", seed % 1000), nmne=nmne)
    meta = {"family": family, "hosts": meta_hosts, "routers": routers, "firewalls": firewalls, "switches": switches,
            "action_tags": [t for _, _, t in amap], "actions": [(a, o) for a, o, _ in amap], "greens": greens,
            "include_nmne": include_nmne, "capture_nmne": capture_nmne, "flatten": flatten, "masking": masking,
            "requires_scan": requires_scan, "ips": ips}
    return cfg, meta


def full_action_map(cfg, seed=0, max_actions=220):
    """Widen the (single) proxy agent's action map of an existing scenario dict - e.g. a shipped one, whose scripted agents really
    succeed at what they do - to every action type x component the scenario contains (same idea as the generated families).
    Returns a deep copy; the original entries keep their indices."""
    rnd = random.Random(f"{seed}-full-action-map")
    cfg = copy.deepcopy(cfg)
    agent = next(a for a in cfg["agents"] if a.get("type") == "proxy-agent")
    amap = agent["action_space"]["action_map"]
    have = {(v["action"], repr(sorted((v.get("options") or {}).items(), key=str))) for v in amap.values()}
    extra = []

    def add(a, o):
        k = (a, repr(sorted(o.items(), key=str)))
        if k not in have:
            have.add(k)
            extra.append({"action": a, "options": o})

    for node in cfg["simulation"]["network"]["nodes"]:
        h, t = node["hostname"], node.get("type")
        if t in ("computer", "server", "printer"):
            for a in ("node-os-scan", "node-shutdown", "node-startup", "node-reset"):
                add(a, {"node_name": h})
            for sv in [x["type"] for x in node.get("services", [])] + ["dns-client"]:
                for v in SERVICE_VERBS:
                    add(f"node-service-{v}", {"node_name": h, "service_name": sv})
            for ap in [x["type"] for x in node.get("applications", [])] + ["web-browser"]:
                for v in APP_VERBS:
                    if v == "execute" and ap in ("c2-server", "nmap"):
                        continue
                    add(f"node-application-{v}", {"node_name": h, "application_name": ap})
            add("host-nic-disable", {"node_name": h, "nic_num": 1})
            add("host-nic-enable", {"node_name": h, "nic_num": 1})
            add("node-file-create", {"node_name": h, "folder_name": "new", "file_name": "n.txt"})
            add("node-file-delete", {"node_name": h, "folder_name": "new", "file_name": "n.txt"})
            fols = {f["folder_name"]: [x["file_name"] for x in f.get("files", [])] for f in node.get("folders", [])}
            if any(x["type"] == "database-service" for x in node.get("services", [])):
                fols.setdefault("database", ["database.db"])
            for fo, files in fols.items():
                for v in FOLDER_VERBS:
                    add(f"node-folder-{v}", {"node_name": h, "folder_name": fo})
                for fi in files:
                    for v in FILE_VERBS:
                        add(f"node-file-{v}", {"node_name": h, "folder_name": fo, "file_name": fi})
        elif t in ("router", "switch", "firewall"):
            add("node-shutdown", {"node_name": h})
            add("node-startup", {"node_name": h})
            add("network-port-disable", {"target_nodename": h, "port_num": 1})
            add("network-port-enable", {"target_nodename": h, "port_num": 1})
    rnd.shuffle(extra)
    nxt = max(amap) + 1
    for e in extra[: max(0, max_actions - len(amap))]:
        amap[nxt] = e
        nxt += 1
    return cfg
