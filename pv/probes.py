"""Instrumentation layer (DESIGN 2.2): monitors are attached from outside the repository by wrapping class attributes.

Every tap counts its activations; taps never change behaviour (call through, re-raise).
"""
from __future__ import annotations

import functools

_installed = []  # (cls, name, original)
counters = {}


def count(name, n=1):
    counters[name] = counters.get(name, 0) + n


def wrap(cls, name, pre=None, post=None, tapname=None):
    """Replace cls.name by a wrapper calling pre(self,*a,**k) -> token and post(self, token, result, exc, *a, **k)."""
    orig = cls.__dict__.get(name)
    if orig is None:
        orig = getattr(cls, name)
        owner_has = False
    else:
        owner_has = True
    func = orig.__func__ if isinstance(orig, (classmethod, staticmethod)) else orig
    tname = tapname or f"{cls.__name__}.{name}"

    @functools.wraps(func)
    def wrapper(self, *a, **k):
        counters[tname] = counters.get(tname, 0) + 1
        tok = pre(self, *a, **k) if pre else None
        try:
            res = func(self, *a, **k)
        except BaseException as e:
            if post:
                post(self, tok, None, e, *a, **k)
            raise
        if post:
            post(self, tok, res, None, *a, **k)
        return res

    wrapper.__pv_wrapped__ = func
    setattr(cls, name, wrapper)
    _installed.append((cls, name, orig, owner_has))
    return wrapper


def tap_setattr(cls, fields, hook, tapname=None):
    """Interpose cls.__setattr__ for the given field names: hook(obj, field, old, new) is called AFTER the write."""
    orig = cls.__dict__.get("__setattr__")
    owner_has = orig is not None
    base = cls.__setattr__
    fields = set(fields)
    tname = tapname or f"{cls.__name__}.__setattr__"

    def __setattr__(self, name, value):
        if name in fields:
            try:
                old = self.__dict__.get(name, getattr(self, name, None))
            except Exception:
                old = None
            base(self, name, value)
            counters[tname] = counters.get(tname, 0) + 1
            hook(self, name, old, getattr(self, name, value))
        else:
            base(self, name, value)

    cls.__setattr__ = __setattr__
    _installed.append((cls, "__setattr__", orig, owner_has))


def uninstall_all():
    while _installed:
        cls, name, orig, owner_has = _installed.pop()
        if owner_has:
            setattr(cls, name, orig)
        else:
            try:
                delattr(cls, name)
            except AttributeError:
                pass
    counters.clear()


class Region:
    """dynamic-extent counter: `with region:` or enter()/exit(); depth>0 means 'inside'."""

    def __init__(self, name):
        self.name = name
        self.depth = 0
        self.stack = []

    def enter(self, info=None):
        self.depth += 1
        self.stack.append(info)

    def exit(self):
        self.depth -= 1
        self.stack.pop()

    @property
    def active(self):
        return self.depth > 0


# ------------------------------------------------------------------------------------------------ deterministic shims
_ENT = None


def deterministic_entropy(seed):
    """Make uuid4 / secrets.randbits / datetime.now() deterministic in this process (paired-run monitors only): the
    opaque identifiers and timestamps are documented as not influencing behaviour (C03 checks that separately), but they
    do change frame sizes by a few bytes, which would otherwise show up as noise in paired comparisons."""
    global _ENT
    import datetime as _dt
    import random as _random
    import secrets as _secrets
    import sys
    import uuid as _uuid

    if _ENT is None:
        _ENT = _random.Random()
        real_uuid4 = _uuid.uuid4

        def fake_uuid4():
            return _uuid.UUID(int=_ENT.getrandbits(128), version=4)

        for name, mod in list(sys.modules.items()):
            if name.startswith("primaite") and getattr(mod, "uuid4", None) is real_uuid4:
                mod.uuid4 = fake_uuid4
        _secrets.randbits = lambda k: _ENT.getrandbits(k)
        real = _dt.datetime

        class FixedDT(real):
            @classmethod
            def now(cls, tz=None):
                return real(2030, 1, 1, 12, 0, 0, 123456)

        for name, mod in list(sys.modules.items()):
            if name.startswith("primaite") and getattr(mod, "datetime", None) is real:
                mod.datetime = FixedDT
    _ENT.seed(seed)
