"""Environment / game level drivers."""
from __future__ import annotations

import copy
import random


def quiet(cfg):
    """same scenario with all file/terminal output switched off (logging is not behaviour; C03 checks that separately)"""
    from . import corpus

    cfg = copy.deepcopy(cfg)
    cfg["io_settings"] = dict(corpus.IO_OFF)
    return cfg


def make_env(cfg):
    from primaite.session.environment import PrimaiteGymEnv

    return PrimaiteGymEnv(env_config=copy.deepcopy(cfg))


class GameDriver:
    """Drive a PrimaiteGame whose RL agents are all proxy agents (the MARL way): one stored action per proxy agent."""

    def __init__(self, cfg):
        from primaite.game.game import PrimaiteGame

        self.cfg = cfg
        self.game = PrimaiteGame.from_config(copy.deepcopy(cfg))
        self.game.setup_for_episode(episode=0)

    def step(self, actions: dict):
        g = self.game
        for name, a in actions.items():
            g.rl_agents[name].store_action(a)
        g.pre_timestep()
        g.apply_agent_actions()
        g.advance_timestep()
        state = g.get_sim_state()
        g.update_agents(state)
        return state


def proxy_agent(ref, action_map, rewards=None, obs=None, flatten=False, masking=False, team="BLUE"):
    d = {
        "ref": ref,
        "team": team,
        "type": "proxy-agent",
        "action_space": {"action_map": {i: {"action": a, "options": o} for i, (a, o) in enumerate(action_map)}},
        "reward_function": {"reward_components": rewards or []},
        "agent_settings": {"flatten_obs": flatten, "action_masking": masking},
    }
    if obs is not None:
        d["observation_space"] = obs
    return d
