"""Process bootstrap shared by every check and every worker (DESIGN 2.1).

* interpreter must be /venv/bin/python (the repository's own venv)
* `primaite` is imported from /repo/src (the current working tree) - asserted
* HOME is redirected to a private temp dir (PrimAITE writes ~/primaite/... on import and on every reset)
* python logging is disabled unless a check asks for it (C03 logging arm)
"""
from __future__ import annotations

import atexit
import os
import shutil
import sys
import tempfile

REPO = os.environ.get("PV_REPO", "/repo")
REPO_SRC = os.path.join(REPO, "src")
VERIF = os.path.dirname(os.path.dirname(os.path.abspath(__file__)))
VENV_PY = "/venv/bin/python"
GUARD = "PRIMAITE_VERIF"

_booted = False
_tmp_home = None


def _cleanup():
    if _tmp_home and os.path.isdir(_tmp_home):
        shutil.rmtree(_tmp_home, ignore_errors=True)


def boot(logging_on: bool = False):
    """Import primaite from /repo/src under a private HOME. Idempotent."""
    global _booted, _tmp_home
    if _booted:
        import primaite

        return primaite
    os.environ[GUARD] = "1"
    base = os.environ.get("PV_SCRATCH") or tempfile.gettempdir()
    _tmp_home = tempfile.mkdtemp(prefix="pvhome-", dir=base)
    atexit.register(_cleanup)
    os.environ["HOME"] = _tmp_home
    os.environ["XDG_DATA_HOME"] = os.path.join(_tmp_home, ".local/share")
    os.environ["XDG_CONFIG_HOME"] = os.path.join(_tmp_home, ".config")
    os.environ["XDG_STATE_HOME"] = os.path.join(_tmp_home, ".local/state")
    os.environ["XDG_CACHE_HOME"] = os.path.join(_tmp_home, ".cache")
    if REPO_SRC in sys.path:
        sys.path.remove(REPO_SRC)
    sys.path.insert(0, REPO_SRC)
    import logging
    import warnings

    warnings.filterwarnings("ignore")
    if not logging_on:
        logging.disable(logging.CRITICAL)
    import primaite

    src = os.path.realpath(primaite.__file__)
    if not src.startswith(os.path.realpath(REPO_SRC) + os.sep):
        raise RuntimeError(f"primaite imported from {src}, expected under {REPO_SRC}")
    if not logging_on:
        # the package attaches a stream handler to its logger; silence it
        primaite._STREAM_HANDLER.setLevel(logging.CRITICAL + 10)
    _booted = True
    return primaite


def home() -> str:
    return _tmp_home
