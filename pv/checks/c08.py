"""C08 - packets reach exactly their addressee via best routes, and forwarding ends.

Monitors: (i) RouteTable.find_best_route postcondition against a reference longest-prefix/metric/default choice over a
bounded-exhaustive table domain; (ii) frame tracer: every software delivery must happen on a node that owns the frame's
destination address (unicast), TTL strictly decreases at successive receive events of one frame, nothing with TTL<1 is
delivered, receive events per frame are bounded, no RecursionError; (iii) independent reachability model over the
scenario dict (pv.models.netref) predicting ping / service exchange outcomes (three-valued).
"""
from __future__ import annotations

import itertools
import random
from ipaddress import IPv4Address, IPv4Network

from pv import corpus, probes
from pv.harness import Cov, digest, viol
from pv.models.netref import NetRef

PREFIXES = [("10.0.0.0", "255.0.0.0"), ("10.1.0.0", "255.255.0.0"), ("10.1.1.0", "255.255.255.0"), ("10.1.1.0", "255.255.255.252"),
            ("10.1.1.4", "255.255.255.252"), ("10.2.0.0", "255.255.0.0")]
DESTS = ["10.1.1.1", "10.1.1.5", "10.1.1.200", "10.1.2.1", "10.2.0.1", "10.200.0.1", "11.0.0.1"]
METRICS = [0, 1, 5]


# ------------------------------------------------------------------------------------------------ (i) route tables
def case_routes(spec, cov, out):
    from primaite.simulator.network.hardware.nodes.network.router import RouteTable
    from primaite.simulator.system.core.sys_log import SysLog

    sl = SysLog("pv-rt")
    entries = [(p, m) for p in range(len(PREFIXES)) for m in METRICS]
    combos = []
    for k in (0, 1, 2, 3):
        combos += list(itertools.combinations_with_replacement(range(len(entries)), k))
    lo, hi = spec["lo"], spec["hi"]
    for ci in range(lo, min(hi, len(combos))):
        combo = combos[ci]
        for default in (False, True):
            for order in ([combo, tuple(reversed(combo))] if len(combo) > 1 else [combo]):
                rt = RouteTable(sys_log=sl)
                routes = []
                for j, e in enumerate(order):
                    (addr, mask), metric = PREFIXES[entries[e][0]], entries[e][1]
                    nh = f"172.16.{j}.{e + 1}"
                    rt.add_route(address=addr, subnet_mask=mask, next_hop_ip_address=nh, metric=metric)
                    routes.append((IPv4Network(f"{addr}/{mask}"), metric, nh))
                if default:
                    rt.set_default_route_next_hop_ip_address("172.31.0.1")
                for d in DESTS:
                    dip = IPv4Address(d)
                    match = [(n.prefixlen, -m, nh) for n, m, nh in routes if dip in n]
                    got = rt.find_best_route(dip)
                    cov.inc("route_lookups")
                    if match:
                        best = max((x[0], x[1]) for x in match)
                        ok_nh = {nh for pl, nm, nh in match if (pl, nm) == best}
                        if got is None or str(got.next_hop_ip_address) not in ok_nh:
                            out.append(viol("best-route-not-longest-prefix-lowest-metric", f"routes {[(str(n), m, nh) for n, m, nh in routes]} default={default}: "
                                            f"destination {d} resolved to {None if got is None else got.next_hop_ip_address}, reference {sorted(ok_nh)}", {"dest": d}))
                            return
                        cov.inc("lookups_with_match")
                        if len(match) > 1:
                            cov.inc("lookups_with_competing_routes")
                    elif default:
                        if got is None or str(got.next_hop_ip_address) != "172.31.0.1":
                            out.append(viol("default-route-not-last-resort", f"routes {[(str(n), m, nh) for n, m, nh in routes]}: destination {d} -> "
                                            f"{None if got is None else got.next_hop_ip_address}, expected the default route", {"dest": d}))
                            return
                        cov.inc("lookups_default")
                    else:
                        if got is not None:
                            out.append(viol("route-returned-for-unrouted-destination", f"destination {d} has no matching route and no default, got {got.next_hop_ip_address}"))
                            return
        cov.inc("route_tables")


# ------------------------------------------------------------------------------------------------ (ii) frame tracer
class FrameTracer:
    def __init__(self, cov, out, ctx):
        self.cov, self.out, self.ctx = cov, out, ctx
        self.frames = {}
        self.net = None
        self.op = None

    def v(self, mech, msg):
        if not any(o["mech"] == mech for o in self.out):
            self.out.append(viol(mech, msg, {"ctx": self.ctx, "op": self.op}))

    def install(self):
        from primaite.simulator.network.airspace import WirelessNetworkInterface
        from primaite.simulator.network.hardware.nodes.host.host_node import NIC
        from primaite.simulator.network.hardware.nodes.network.router import RouterInterface
        from primaite.simulator.network.hardware.nodes.network.switch import SwitchPort
        from primaite.simulator.system.core.software_manager import SoftwareManager

        tr = self

        def pre_rx(nic, frame):
            if frame.ip is None:
                return
            rec = tr.frames.setdefault(id(frame), {"ttls": [], "frame": frame})
            rec["ttls"].append(frame.ip.ttl)
            tr.cov.inc("receive_events")
            n = len(rec["ttls"])
            tr.cov.mx("receive_events_per_frame", n)
            if n >= 2 and not rec["ttls"][-1] < rec["ttls"][-2]:
                tr.v("ttl-not-lowered-between-hops", f"frame {frame.ip.src_ip_address}->{frame.ip.dst_ip_address}: TTL sequence at successive receives {rec['ttls'][-4:]} "
                     f"(arriving at {getattr(nic._connected_node, 'config', None) and nic._connected_node.config.hostname})")
            if n > 80:
                tr.v("forwarding-does-not-end", f"frame {frame.ip.src_ip_address}->{frame.ip.dst_ip_address} received {n} times")

        for cls in (NIC, RouterInterface, SwitchPort, WirelessNetworkInterface):
            if "receive_frame" in cls.__dict__:
                probes.wrap(cls, "receive_frame", pre_rx, None)

        def pre_deliver(sm, *a, **k):
            frame = k.get("frame")
            node = getattr(sm, "node", None)
            if frame is None or node is None or frame.ip is None:
                return
            tr.cov.inc("software_deliveries")
            if frame.ip.ttl < 1:
                tr.v("exhausted-ttl-frame-delivered", f"frame with TTL {frame.ip.ttl} handed to software on {node.config.hostname}")
            dst = frame.ip.dst_ip_address
            if frame.ethernet.dst_mac_addr.lower() == "ff:ff:ff:ff:ff:ff":
                return
            owned = any(getattr(i, "ip_address", None) == dst for i in node.network_interface.values())
            if not owned:
                kind = "icmp" if frame.icmp else ("arp" if (frame.udp and frame.udp.dst_port == 219) else "data")
                tr.v(f"payload-delivered-on-node-not-owning-destination/{kind}", f"unicast frame for {dst} was handed to software on {node.config.hostname} "
                     f"(addresses {[str(getattr(i, 'ip_address', '')) for i in node.network_interface.values()]})")

        probes.wrap(SoftwareManager, "receive_payload_from_session_manager", pre_deliver, None)

    def new_op(self, op):
        self.op = op
        self.frames.clear()


# ------------------------------------------------------------------------------------------------ topologies
def routed_chain(rnd, nr, shape="chain"):
    """R routers in a chain (optionally closed to a triangle), one LAN per router; returns (Net, info)"""
    n = corpus.Net()
    z = dict(start_up_duration=0, shut_down_duration=0)
    lans = {i: f"10.{i}.0" for i in range(1, nr + 1)}
    inter = {}  # (i,j) -> (net prefix, ip_i, ip_j)
    pairs = [(i, i + 1) for i in range(1, nr)] + ([(1, nr)] if shape == "triangle" and nr == 3 else [])
    for k, (i, j) in enumerate(pairs):
        base = f"10.100.{k}"
        inter[(i, j)] = (f"{base}.0", f"{base}.1", f"{base}.2")
    hosts = []
    style = rnd.choice(["specific", "aggregate", "default", "mixed"])
    for i in range(1, nr + 1):
        ports = {1: (f"{lans[i]}.1", "255.255.255.0")}
        pn = 2
        port_of = {}
        for (a, b), (netp, ipa, ipb) in inter.items():
            if a == i:
                ports[pn] = (ipa, "255.255.255.252")
                port_of[b] = (pn, ipb)
                pn += 1
            elif b == i:
                ports[pn] = (ipb, "255.255.255.252")
                port_of[a] = (pn, ipa)
                pn += 1
        routes, default = [], None
        # next hop towards each remote lan along the chain
        for j in range(1, nr + 1):
            if j == i:
                continue
            if j in port_of and (shape == "triangle" or abs(j - i) == 1):
                nh = port_of[j][1]
            else:
                step = i + (1 if j > i else -1)
                nh = port_of[step][1] if step in port_of else None
            if nh is None:
                continue
            s = style if style != "mixed" else rnd.choice(["specific", "aggregate", "default"])
            if rnd.random() < spec_missing(rnd):
                continue  # deliberately missing route
            if s == "specific":
                routes.append({"address": f"{lans[j]}.0", "subnet_mask": "255.255.255.0", "next_hop_ip_address": nh, "metric": rnd.choice([0, 1])})
            elif s == "aggregate":
                routes.append({"address": "10.0.0.0", "subnet_mask": "255.0.0.0", "next_hop_ip_address": nh, "metric": rnd.choice([0, 5])})
                if rnd.random() < 0.5:
                    # a more specific, worse-metric route must still win
                    routes.append({"address": f"{lans[j]}.0", "subnet_mask": "255.255.255.0", "next_hop_ip_address": nh, "metric": 9})
            else:
                default = nh
        acl = {0: {"action": "PERMIT"}}
        mode = rnd.random()
        if mode < 0.25:
            acl = {5: {"action": "PERMIT", "protocol": "TCP", "src_port": "POSTGRES_SERVER", "dst_port": "POSTGRES_SERVER"}}  # + documented defaults ARP/ICMP
        elif mode < 0.4:
            acl = {1: {"action": "DENY", "protocol": "ICMP", "src_ip": f"{lans[1]}.10"}, 2: {"action": "PERMIT"}}
        elif mode < 0.5:
            acl = {1: {"action": "DENY", "src_ip": f"{lans[1]}.0", "src_wildcard_mask": "0.0.0.255", "dst_ip": f"{lans[nr]}.20"}, 3: {"action": "PERMIT"}}
        n.router(f"r{i}", ports, acl=acl, routes=routes, default_route=default, num_ports=5, **z)
        n.switch(f"sw{i}", 6, **z)
        n.link(f"r{i}", 1, f"sw{i}", 6)
        n._swport[f"sw{i}"] = 0
        for hnum, (suffix, kind) in enumerate([(10, "computer"), (20, "server")][: rnd.choice([1, 2])]):
            hn = f"h{i}_{suffix}"
            extra = {}
            if kind == "server":
                extra["services"] = [{"type": "database-service"}]
            else:
                extra["applications"] = [{"type": "database-client", "options": {"db_server_ip": f"{lans[nr]}.20"}}]
            n.host(hn, f"{lans[i]}.{suffix}", gw=f"{lans[i]}.1", kind=kind, **z, **extra)
            n.to_switch(f"sw{i}", hn)
            hosts.append(hn)
    for (a, b) in inter:
        pa = [p for p, (ip, m) in n.node(f"r{a}")["ports"].items() if ip["ip_address"] == inter[(a, b)][1]] if False else None
    # inter-router links
    for (a, b), (netp, ipa, ipb) in inter.items():
        pa = next(p for p, v in n.node(f"r{a}")["ports"].items() if v["ip_address"] == ipa)
        pb = next(p for p, v in n.node(f"r{b}")["ports"].items() if v["ip_address"] == ipb)
        n.link(f"r{a}", pa, f"r{b}", pb)
    return n, {"hosts": hosts, "routers": [f"r{i}" for i in range(1, nr + 1)], "style": style}


def spec_missing(rnd):
    return 0.12


def case_topology(spec, cov, out):
    rnd = random.Random(spec["seed"])
    nr = spec["routers"]
    net, info = routed_chain(rnd, nr, spec.get("shape", "chain"))
    cfg = net.scenario()
    probes.uninstall_all()
    tr = FrameTracer(cov, out, {"seed": spec["seed"], "routers": nr, "shape": spec.get("shape"), "style": info["style"]})
    tr.install()
    try:
        game = corpus.build_game(cfg)
        sim = game.simulation
        ref = NetRef(cfg)
        nodes = {h: sim.network.get_node_by_hostname(h) for h in info["hosts"] + info["routers"]}
        t = 0
        sim.pre_timestep(t)
        hosts = info["hosts"]
        pairs = [(a, b) for a in hosts for b in hosts if a != b]
        rnd.shuffle(pairs)
        rounds = spec.get("rounds", 2)
        for rd in range(rounds):
            if rd > 0:
                # interface / power toggles between rounds, mirrored in the reference model
                for _ in range(rnd.choice([1, 2])):
                    r = rnd.choice(info["routers"])
                    kind = rnd.choice(["port-off", "port-on", "power-off", "power-on", "arp-clear"])
                    rn = nodes[r]
                    if kind == "port-off":
                        p = rnd.choice(list(rn.network_interface))
                        if p in ref.nodes[r]["ifs"]:
                            sim.apply_request(["network", "node", r, "network_interface", p, "disable"])
                            ref.set_if(r, p, False)
                            cov.hit("toggles", kind)
                    elif kind == "port-on":
                        for p in list(ref.nodes[r]["ifs"]):
                            if not ref.nodes[r]["ifs"][p]["up"] and ref.nodes[r]["on"]:
                                sim.apply_request(["network", "node", r, "network_interface", p, "enable"])
                                ref.set_if(r, p, True)
                                cov.hit("toggles", kind)
                    elif kind == "power-off" and ref.nodes[r]["on"]:
                        sim.apply_request(["network", "node", r, "shutdown"])
                        ref.set_power(r, False)
                        cov.hit("toggles", kind)
                    elif kind == "power-on" and not ref.nodes[r]["on"]:
                        sim.apply_request(["network", "node", r, "startup"])
                        ref.set_power(r, True)
                        for p in ref.nodes[r]["ifs"]:
                            ref.set_if(r, p, True)
                        cov.hit("toggles", kind)
                    elif kind == "arp-clear":
                        for nd in nodes.values():
                            if nd.software_manager.arp:
                                nd.software_manager.arp.clear()
                        cov.hit("toggles", kind)
                t += 1
                sim.apply_timestep(t)
                sim.pre_timestep(t)
            for a, b in pairs[: spec.get("pairs", 12)]:
                bip = ref.nodes[b]["ifs"][1]["ip"]
                for proto in ("icmp", "tcp"):
                    if proto == "tcp" and not (ref.nodes[b]["type"] == "server" and "database-client" in nodes[a].software_manager.software):
                        continue
                    exp, why = ref.exchange(a, bip, proto, 5432 if proto == "tcp" else None)
                    tr.new_op((a, b, str(bip), proto, f"round{rd}"))
                    try:
                        if proto == "icmp":
                            got = bool(nodes[a].ping(str(bip), pings=2))
                        else:
                            c = nodes[a].software_manager.software["database-client"]
                            c.server_ip_address = bip
                            conn = c.get_new_connection()
                            got = conn is not None
                            if conn:
                                conn.disconnect()
                    except RecursionError:
                        tr.v("recursion-error-while-forwarding", f"{proto} {a}->{b}: RecursionError")
                        got = None
                    cov.inc("exchanges")
                    cov.hit("expectation", f"{proto}:{exp}")
                    if exp == "success" and got is False:
                        tr.v(f"permitted-exchange-fails/{proto}", f"{proto} {a} -> {b} ({bip}) failed in round {rd} although every device on the path permits it "
                             f"(reference: forward+return path delivered); topology style {info['style']}")
                    elif exp == "fail" and got is True:
                        tr.v(f"impossible-exchange-succeeds/{proto}", f"{proto} {a} -> {b} ({bip}) succeeded although the reference model says: {why}")
                    if out:
                        return
            # traffic to an unowned address: must fail and must end
            a = rnd.choice(hosts)
            tr.new_op((a, "unowned", "10.99.99.99", "icmp", f"round{rd}"))
            try:
                got = nodes[a].ping("10.99.99.99", pings=1)
            except RecursionError:
                tr.v("recursion-error-while-forwarding", f"ping {a}->10.99.99.99: RecursionError")
                got = None
            cov.inc("unowned_destination_pings")
            if got:
                tr.v("impossible-exchange-succeeds/icmp", f"ping from {a} to the unowned address 10.99.99.99 succeeded")
    finally:
        probes.uninstall_all()


def case_hostile(spec, cov, out):
    """routing loop (mutual default routes), gateway that is a plain host, long switch chain"""
    rnd = random.Random(spec["seed"])
    kind = spec["hostile"]
    n = corpus.Net()
    z = dict(start_up_duration=0, shut_down_duration=0)
    if kind == "loop":
        n.router("r1", {1: ("10.1.0.1", "255.255.255.0"), 2: ("10.100.0.1", "255.255.255.252")}, acl={0: {"action": "PERMIT"}}, default_route="10.100.0.2", **z)
        n.router("r2", {1: ("10.2.0.1", "255.255.255.0"), 2: ("10.100.0.2", "255.255.255.252")}, acl={0: {"action": "PERMIT"}}, default_route="10.100.0.1", **z)
        n.host("ha", "10.1.0.10", gw="10.1.0.1", **z)
        n.host("hb", "10.2.0.10", gw="10.2.0.1", **z)
        n.link("ha", 1, "r1", 1)
        n.link("hb", 1, "r2", 1)
        n.link("r1", 2, "r2", 2)
        targets = ["10.77.0.1", "10.2.0.99", "172.16.0.1"]
    elif kind.startswith("dead-lan"):
        # two routers with routes (and default routes) towards each other; the target LAN's side goes down before the pings
        n.router("r1", {1: ("10.1.0.1", "255.255.255.0"), 2: ("10.100.0.1", "255.255.255.252")}, acl={0: {"action": "PERMIT"}},
                 routes=[{"address": "10.2.0.0", "subnet_mask": "255.255.255.0", "next_hop_ip_address": "10.100.0.2"}], default_route="10.100.0.2" if "default" in kind else None, **z)
        n.router("r2", {1: ("10.2.0.1", "255.255.255.0"), 2: ("10.100.0.2", "255.255.255.252")}, acl={0: {"action": "PERMIT"}},
                 routes=[{"address": "10.1.0.0", "subnet_mask": "255.255.255.0", "next_hop_ip_address": "10.100.0.1"}], default_route="10.100.0.1" if "default" in kind else None, **z)
        n.host("ha", "10.1.0.10", gw="10.1.0.1", **z)
        n.host("hb", "10.2.0.10", gw="10.2.0.1", **z)
        n.link("ha", 1, "r1", 1)
        n.link("hb", 1, "r2", 1)
        n.link("r1", 2, "r2", 2)
        targets = ["10.2.0.10", "10.2.0.99", "10.2.0.10"]
    elif kind == "host-gateway":
        n.switch("sw", 6, **z)
        n.host("ha", "10.1.0.10", gw="10.1.0.20", **z)  # the 'gateway' is a plain host
        n.host("hb", "10.1.0.20", **z)
        n.host("hc", "10.1.0.30", gw="10.1.0.20", **z)
        for h in ("ha", "hb", "hc"):
            n.to_switch("sw", h)
        targets = ["10.9.9.9", "192.168.50.1", "10.1.0.99"]
    else:
        prev = None
        for i in range(6):
            n.switch(f"s{i}", 4, **z)
            if prev:
                n.link(prev, 4, f"s{i}", 3)
            prev = f"s{i}"
        n.host("ha", "10.1.0.10", **z)
        n.host("hb", "10.1.0.20", **z)
        n.link("ha", 1, "s0", 1)
        n.link("hb", 1, "s5", 1)
        targets = ["10.1.0.20", "10.1.0.77"]
    cfg = n.scenario()
    probes.uninstall_all()
    tr = FrameTracer(cov, out, {"hostile": kind})
    tr.install()
    try:
        game = corpus.build_game(cfg)
        sim = game.simulation
        sim.pre_timestep(0)
        ha = sim.network.get_node_by_hostname("ha")
        ref = NetRef(cfg)
        if kind.startswith("dead-lan"):
            if "warm" in kind:
                ha.ping("10.2.0.10")
            req = {"port": ["network", "node", "r2", "network_interface", 1, "disable"], "hostoff": ["network", "node", "hb", "shutdown"],
                   "nic": ["network", "node", "hb", "network_interface", 1, "disable"]}[kind.split("-")[2]]
            sim.apply_request(req)
            sim.apply_timestep(0)
            sim.pre_timestep(1)
        for tgt in targets:
            tr.new_op(("ha", tgt, kind))
            try:
                got = ha.ping(tgt, pings=2)
            except RecursionError:
                tr.v("recursion-error-while-forwarding", f"{kind}: ping ha->{tgt}: RecursionError")
                got = None
            cov.inc("hostile_pings")
            owners = ref.owners(IPv4Address(tgt))
            if kind.startswith("dead-lan") and got:
                tr.v("impossible-exchange-succeeds/icmp", f"{kind}: ping from ha to {tgt} succeeded although its LAN side is down")
            if got and not owners:
                tr.v("impossible-exchange-succeeds/icmp", f"{kind}: ping from ha to the unowned address {tgt} succeeded")
            if kind == "chain" and owners and got is False:
                tr.v("permitted-exchange-fails/icmp", f"ping across 6 switches to {tgt} failed")
        if kind.startswith("dead-lan"):
            # the path comes back in the SAME timestep (no tick in between): the very next ping must get through again
            undo = {"port": ["network", "node", "r2", "network_interface", 1, "enable"], "hostoff": ["network", "node", "hb", "startup"],
                    "nic": ["network", "node", "hb", "network_interface", 1, "enable"]}[kind.split("-")[2]]
            sim.apply_request(undo)
            tr.new_op(("ha", "10.2.0.10", kind + ":revived-same-tick"))
            try:
                got = ha.ping("10.2.0.10", pings=3)
            except RecursionError:
                tr.v("recursion-error-while-forwarding", f"{kind}: ping after revival: RecursionError")
                got = None
            cov.inc("hostile_pings")
            cov.inc("revived_same_tick_pings")
            hb_on = sim.network.get_node_by_hostname("hb").operating_state.name == "ON"
            if got is False and hb_on:
                tr.v("permitted-exchange-fails/icmp", f"{kind}: the path to 10.2.0.10 was restored within the timestep but the next ping from ha still failed")
    finally:
        probes.uninstall_all()


# ------------------------------------------------------------------------------------------------ wireless routers
def case_wireless(spec, cov, out):
    """k wireless routers (access point = port 1 on a shared /24, wired interface = port 2 with one host behind it), full mesh of static
    routes over the air. Own small oracle: a ping between two hosts must succeed iff both hosts and both routers are ON, both wired
    interfaces and both access points are enabled and the two access points are on the SAME frequency - whatever happened before
    (access point disabled / enabled by request, routers power-cycled, access points re-configured onto another frequency through
    configure_wireless_access_point, ARP caches flushed)."""
    from primaite.simulator.network.airspace import AirSpaceFrequency

    rnd = random.Random(spec["seed"])
    k = spec.get("routers", 2)
    freqs = ["WIFI_2_4", "WIFI_5"]
    z = dict(start_up_duration=0, shut_down_duration=0)
    n = corpus.Net()
    st = {}
    for i in range(1, k + 1):
        f0 = rnd.choice(freqs) if spec.get("mixed_start") else "WIFI_2_4"
        node = {"type": "wireless-router", "hostname": f"wr{i}", **z,
                "router_interface": {"ip_address": f"10.{i}.0.1", "subnet_mask": "255.255.255.0"},
                "wireless_access_point": {"ip_address": f"10.100.0.{i}", "subnet_mask": "255.255.255.0", "frequency": f0},
                "acl": {1: {"action": "PERMIT"}},
                "routes": [{"address": f"10.{j}.0.0", "subnet_mask": "255.255.255.0", "next_hop_ip_address": f"10.100.0.{j}", "metric": 0}
                           for j in range(1, k + 1) if j != i]}
        n.nodes.append(node)
        n.host(f"h{i}", f"10.{i}.0.10", gw=f"10.{i}.0.1", **z)
        n.link(f"h{i}", 1, f"wr{i}", 2)
        st[i] = {"on": True, "ap": True, "wired": True, "freq": f0, "host_on": True}
    cfg = n.scenario()
    probes.uninstall_all()
    tr = FrameTracer(cov, out, {"seed": spec["seed"], "wireless_routers": k})
    tr.install()
    try:
        game = corpus.build_game(cfg)
        sim = game.simulation
        R = {i: sim.network.get_node_by_hostname(f"wr{i}") for i in st}
        H = {i: sim.network.get_node_by_hostname(f"h{i}") for i in st}
        t = 0
        sim.pre_timestep(t)

        def expect(a, b):
            for i in (a, b):
                s_ = st[i]
                if not (s_["on"] and s_["ap"] and s_["wired"] and s_["host_on"]):
                    return False
            return st[a]["freq"] == st[b]["freq"]

        def req(path):
            r = sim.apply_request(path)
            return r.status if r is not None else None

        for rd in range(spec.get("rounds", 6)):
            if rd > 0:
                for _ in range(rnd.choice([1, 1, 2])):
                    i = rnd.choice(sorted(st))
                    op = rnd.choice(["ap-off", "ap-on", "refreq", "refreq", "refreq-off", "power-off", "power-on", "wired-off", "wired-on", "arp-clear", "tick"])
                    down = [j for j in sorted(st) if not st[j]["on"]]
                    if down and rnd.random() < 0.5:  # bring a powered-off router back more often than chance would
                        i, op = rnd.choice(down), "power-on"
                    s_ = st[i]
                    if s_["on"] and not (s_["ap"] and s_["wired"]) and rnd.random() < 0.4:
                        op = "ap-on" if not s_["ap"] else "wired-on"
                    if op == "ap-off" and s_["on"]:
                        if req(["network", "node", f"wr{i}", "network_interface", 1, "disable"]) == "success":
                            s_["ap"] = False
                    elif op == "ap-on" and s_["on"]:
                        if req(["network", "node", f"wr{i}", "network_interface", 1, "enable"]) == "success":
                            s_["ap"] = True
                    elif op == "wired-off" and s_["on"]:
                        if req(["network", "node", f"wr{i}", "network_interface", 2, "disable"]) == "success":
                            s_["wired"] = False
                    elif op == "wired-on" and s_["on"]:
                        if req(["network", "node", f"wr{i}", "network_interface", 2, "enable"]) == "success":
                            s_["wired"] = True
                    elif op in ("refreq", "refreq-off") and s_["on"]:
                        # documented way to (re)configure an access point: disables it, sets address + frequency, enables it again
                        if op == "refreq-off" and s_["ap"]:
                            if req(["network", "node", f"wr{i}", "network_interface", 1, "disable"]) == "success":
                                s_["ap"] = False
                        f_new = rnd.choice(freqs)
                        R[i].configure_wireless_access_point(ip_address=f"10.100.0.{i}", subnet_mask="255.255.255.0", frequency=AirSpaceFrequency._registry[f_new])
                        cov.hit("frequency_changes", "same" if f_new == s_["freq"] else "moved")
                        s_["freq"], s_["ap"] = f_new, True
                    elif op == "power-off" and s_["on"]:
                        if req(["network", "node", f"wr{i}", "shutdown"]) == "success":
                            s_["on"] = False
                            s_["ap"] = s_["wired"] = False
                    elif op == "power-on" and not s_["on"]:
                        if req(["network", "node", f"wr{i}", "startup"]) == "success":
                            s_["on"] = True
                            s_["ap"] = s_["wired"] = True
                    elif op == "arp-clear":
                        for nd in list(R.values()) + list(H.values()):
                            if nd.software_manager.arp:
                                nd.software_manager.arp.clear()
                    elif op == "tick":
                        t += 1
                        sim.apply_timestep(t)
                        sim.pre_timestep(t)
                    else:
                        continue
                    cov.hit("wireless_ops", op)
                    # agreement between the oracle's book-keeping and the interfaces themselves (a mismatch is a harness problem, not a finding)
                    if R[i].network_interface[1].enabled != (s_["ap"] and s_["on"]) or R[i].network_interface[1].frequency.name != s_["freq"]:
                        cov.inc("oracle_state_mismatch")
                        return
                t += 1
                sim.apply_timestep(t)
                sim.pre_timestep(t)
            pairs = [(a, b) for a in st for b in st if a != b]
            rnd.shuffle(pairs)
            for a, b in pairs[:4]:
                exp = expect(a, b)
                tr.new_op((f"h{a}", f"h{b}", f"round{rd}", {i: dict(v) for i, v in st.items()}))
                try:
                    got = bool(H[a].ping(f"10.{b}.0.10", pings=2))
                except RecursionError:
                    tr.v("recursion-error-while-forwarding", f"wireless ping h{a}->h{b}: RecursionError")
                    got = None
                cov.inc("exchanges")
                cov.inc("wireless_exchanges")
                cov.hit("expectation", f"wireless:{'success' if exp else 'fail'}")
                if exp and got is False:
                    tr.v("permitted-exchange-fails/wireless", f"ping h{a} -> h{b} failed in round {rd} although both routers are ON with access points enabled on "
                         f"{st[a]['freq']} and wired interfaces up; state {st}")
                elif not exp and got is True:
                    tr.v("impossible-exchange-succeeds/wireless", f"ping h{a} -> h{b} succeeded in round {rd} although state is {st[a]} / {st[b]}")
                if out:
                    return
    finally:
        probes.uninstall_all()


RUN = {"routes": case_routes, "topology": case_topology, "hostile": case_hostile, "wireless": case_wireless}


class Check:
    pid = "C08"
    level = "exploration"
    rule = ("(routes) every route table of <=3 routes (with repetition, both insertion orders) over 6 nested/overlapping prefixes x "
            "metrics {0,1,5}, with and without a default route, x 7 destinations - exhaustive for that domain; (topology) generated "
            "chains / triangles of 1-3 routers with specific / aggregate+more-specific / default / mixed static routes, deliberately "
            "missing routes, ACL shapes {permit-all, port-specific, address deny, range deny}, all ordered host pairs, ping and a TCP "
            "service exchange, cold and warm ARP, interface/power toggles and ARP flushes between rounds, traffic to unowned "
            "addresses; (hostile) mutual default routes (loop), a plain host as gateway, a 6-switch chain. Non-trivial topology "
            "case: both 'success' and 'fail' expectations judged; distinct by (seed, shape).")
    assumptions = [
        "expectation model pv.models.netref is exact for host/switch/router paths (ACL first-match, LPM, documented router default rules); route ties and anything through a filtering firewall are not judged",
        "TTL: every receiving interface and every routing step lowers it; a frame object is followed by identity",
    ]
    min_monitor = {"route_lookups": 20000, "exchanges": 600, "receive_events": 20000, "software_deliveries": 3000, "hostile_pings": 30}
    case_timeout = {"quick": 1500, "thorough": 5400}

    def cases(self, tier, seed):
        q = tier == "quick"
        specs = []
        ncombo = 1 + 18 + 171 + 1140
        chunk = 90
        for lo in range(0, ncombo, chunk):
            specs.append({"name": f"routes-{lo}", "kind": "routes", "lo": lo, "hi": lo + chunk})
        for s in range(160 if q else 600):
            sd = seed * 1000 + s
            nr = 1 + s % 3
            specs.append({"name": f"topo-{sd}", "kind": "topology", "seed": sd, "routers": nr, "shape": "triangle" if (nr == 3 and s % 2) else "chain",
                          "rounds": 3 if q else 5, "pairs": 12 if q else 30})
        dead = [f"dead-lan-{how}{d}{w}" for how in ("port", "hostoff", "nic") for d in ("", "-default") for w in ("", "-warm")]
        for h in ["loop", "host-gateway", "chain"] + dead:
            specs.append({"name": f"hostile-{h}", "kind": "hostile", "hostile": h, "seed": seed})
        for s in range(24 if q else 120):
            sd = seed * 1000 + 500 + s
            specs.append({"name": f"wireless-{sd}", "kind": "wireless", "seed": sd, "routers": 2 + s % 2, "mixed_start": s % 4 == 3, "rounds": 6 if q else 12})
        return specs

    def run_case(self, spec):
        cov, out = Cov(), []
        RUN[spec["kind"]](spec, cov, out)
        e = cov.d.get("expectation", {})
        nontrivial = (any(k.endswith(":success") for k in e) and any(k.endswith(":fail") for k in e)) if spec["kind"] in ("topology", "wireless") else True
        if cov.d.get("oracle_state_mismatch"):
            nontrivial = False
        return {"violations": out, "cov": cov.d, "nontrivial": nontrivial, "digest": digest(spec), "sample": {"case": spec, "expectations": e}}


CHECK = Check()
