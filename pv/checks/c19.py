"""C19 - scripted green/red agents act only when and how their settings allow.

Offline trace checker over recorded histories (agent.history: timestep, action, parameters, response) plus a per-step
sample of the TAP agents' current_kill_chain_stage: one small trace automaton per agent type, parameterised by the
agent's configured settings.
"""
from __future__ import annotations

import copy
import random

from pv import corpus, envdrv, envrun
from pv.harness import Cov, digest, viol

TAP_FINAL = {"tap-001": "PAYLOAD", "tap-003": "EXPLOIT"}
TAP_ORDER = {"tap-001": ["DOWNLOAD", "INSTALL", "ACTIVATE", "PROPAGATE", "COMMAND_AND_CONTROL", "PAYLOAD"],
             "tap-003": ["RECONNAISSANCE", "PLANNING", "ACCESS", "MANIPULATION", "EXPLOIT"]}


def fits(gap, f, v):
    """gap decomposable into k>=1 intervals each within [f-v, f+v]"""
    lo, hi = max(1, f - v), f + v
    k = 1
    while k * lo <= gap:
        if gap <= k * hi:
            return True
        k += 1
    return False


def check_periodic(name, acfg, hist, out, cov, exact=True):
    s = acfg["agent_settings"]
    f, v = s.get("frequency", 5), s.get("variance", 0)
    start, sv = s.get("start_step", 5), (s.get("start_variance", 0) if acfg["type"] == "periodic-agent" else 0)
    nodes = s["possible_start_nodes"]
    app = s.get("target_application", "data-manipulation-bot")
    acts = [(h.timestep, h) for h in hist if h.action != "do-nothing"]
    cov.inc("executions_observed", len(acts))
    if not acts:
        return
    t0 = acts[0][0]
    if t0 < start - sv:
        out.append((f"acts-before-start/{acfg['type']}", f"{name}: first action at step {t0}, start_step={start} start_variance={sv}"))
    used_nodes = set()
    for t, h in acts:
        if h.action != "node-application-execute" or h.parameters.get("application_name") != app:
            out.append((f"unconfigured-action/{acfg['type']}", f"{name}: step {t}: action {h.action} {h.parameters}, configured target_application={app}"))
            break
        if h.parameters.get("node_name") not in nodes:
            out.append((f"acts-from-unconfigured-node/{acfg['type']}", f"{name}: step {t}: node {h.parameters.get('node_name')} not in {nodes}"))
            break
        used_nodes.add(h.parameters.get("node_name"))
    for (a, _), (b, _) in zip(acts, acts[1:]):
        gap = b - a
        cov.inc("gaps_measured")
        ok = (f - v <= gap <= f + v)
        if not ok:
            out.append((f"gap-outside-frequency-variance/{acfg['type']}", f"{name}: consecutive actions at steps {a} and {b} (gap {gap}) with frequency={f} variance={v}"))
            break
    mx = s.get("max_executions")
    if mx is not None and acfg["type"] == "periodic-agent" and len(acts) > mx:
        out.append((f"more-than-max-executions/{acfg['type']}", f"{name}: {len(acts)} executions, max_executions={mx}"))


def check_probabilistic(name, acfg, hist, out, cov):
    probs = {int(k): float(p) for k, p in acfg["agent_settings"]["action_probabilities"].items()}
    am = acfg["action_space"]["action_map"]
    zero = [i for i, p in probs.items() if p == 0.0]
    if zero:
        cov.inc("agents_with_zero_probability_entries")
    for h in hist:
        idx = [int(i) for i, e in am.items() if e["action"] == h.action and (e.get("options") or {}) == h.parameters]
        cov.inc("probabilistic_choices")
        if not idx:
            out.append(("unconfigured-action/probabilistic-agent", f"{name}: step {h.timestep}: action {h.action} {h.parameters} is not in its action map"))
            return
        if all(probs.get(i, 0.0) == 0.0 for i in idx):
            out.append(("zero-probability-action-chosen/probabilistic-agent", f"{name}: step {h.timestep}: chose action index {idx} ({h.action}) whose configured probability is 0; table {probs}"))
            return


def check_random(name, acfg, hist, out, cov):
    am = acfg["action_space"]["action_map"]
    for h in hist:
        if not any(e["action"] == h.action and (e.get("options") or {}) == h.parameters for e in am.values()):
            out.append(("unconfigured-action/random-agent", f"{name}: step {h.timestep}: action {h.action} not in its action map"))
            return


def check_tap(name, acfg, hist, stages, out, cov):
    typ = acfg["type"]
    s = acfg["agent_settings"]
    f, v, start = s.get("frequency", 5), s.get("variance", 0), s.get("start_step", 5)
    repeat = s.get("repeat_kill_chain", False)
    order = TAP_ORDER[typ]
    allowed_nodes = set(s.get("starting_nodes") or []) | {s["default_starting_node"]}
    c2 = ((s.get("kill_chain") or {}).get("COMMAND_AND_CONTROL") or {}).get("c2_server_name")
    acts = [(h.timestep, h) for h in hist if h.action != "do-nothing"]
    cov.inc("executions_observed", len(acts))
    cov.inc("tap_actions_failed", sum(1 for _, h in acts if h.response.status != "success"))
    if acts and acts[0][0] < start - v:
        out.append((f"acts-before-start/{typ}", f"{name}: first action at step {acts[0][0]}, start_step={start} variance={v}"))
    for (a, _), (b, _) in zip(acts, acts[1:]):
        cov.inc("gaps_measured")
        if not fits(b - a, f, v):
            out.append((f"gap-outside-frequency-variance/{typ}", f"{name}: actions at steps {a} and {b} (gap {b - a}) not a multiple-turn gap of frequency={f} variance={v}"))
            break
    for t, h in acts:
        node = h.parameters.get("node_name") or h.parameters.get("source_node")
        if node is not None and node == c2 and h.action.startswith("c2-server-"):
            continue  # commands issued through the configured C2 server are addressed to that server's node
        if node is not None and node not in allowed_nodes:
            out.append((f"acts-from-unconfigured-node/{typ}", f"{name}: step {t}: {h.action} from node {node}, configured nodes {sorted(allowed_nodes)}"))
            break
    # kill-chain stage sequence (every write to current_kill_chain_stage)
    concluded_at = None
    for t, prev, st in stages:
        cov.add("tap_stages_reached", f"{typ}:{st}")
        cov.inc("stage_writes")
        if st == prev:
            continue
        ok = False
        if prev == "NOT_STARTED" and st == order[0]:
            ok = True
        elif prev in order and st in order and order.index(st) == order.index(prev) + 1:
            ok = True
        elif st == "FAILED" and prev not in ("SUCCEEDED",):
            ok = True
        elif st == "FAILED" and prev == "SUCCEEDED" and [h.response.status for tt, h in acts if tt < t][-1:] not in ([], ["success"]):
            # the chain was concluded when its last action was ISSUED; that action's refusal is only known at the agent's next turn, which then
            # (repeat_kill_chain_stages off) marks the attempt failed - a correction, not a stage skipped or taken out of order
            ok = True
            cov.inc("tap_conclusions_corrected_after_last_action_failed")
        elif st == "SUCCEEDED" and prev == order[-1]:
            ok = True
        elif st == "NOT_STARTED" and prev in ("SUCCEEDED", "FAILED") and repeat:
            ok = True
        cov.hit("stage_transitions", f"{typ}:{prev}->{st}")
        if not ok:
            kind = "skips-a-stage" if (prev in order and st in order) or (prev == "NOT_STARTED" and st in order) or st == "SUCCEEDED" else "illegal-stage-move"
            out.append((f"kill-chain-{kind}/{typ}", f"{name}: kill chain stage moved {prev} -> {st} at step {t} (repeat_kill_chain={repeat})"))
            break
        if st == "SUCCEEDED":
            cov.inc("kill_chains_completed")
            cov.hit("kill_chains_completed_by_type", typ)
        if st in ("SUCCEEDED", "FAILED") and not repeat and concluded_at is None:
            concluded_at = t
    if concluded_at is not None:
        late = [(t, h.action) for t, h in acts if t > concluded_at + 1]
        if late:
            out.append((f"acts-after-kill-chain-concluded/{typ}", f"{name}: kill chain concluded at step {concluded_at} without repeat, but acted later: {late[:3]}"))


class StageSampler:
    """records every write to a TAP agent's current_kill_chain_stage (field-write tap), with the game step"""

    def __init__(self):
        self.samples = {}
        self.trials = []
        self.env = None

    def install(self):
        from primaite.game.agent.scripted_agents.abstract_tap import AbstractTAP
        from pv import probes

        me = self

        def on_stage(agent, field, old, new):
            if me.env is None or old is None:
                return
            name = agent.config.ref
            t = me.env.game.step_counter
            me.samples.setdefault(name, []).append((t, getattr(old, "name", str(old)), getattr(new, "name", str(new))))

        probes.tap_setattr(AbstractTAP, ["current_kill_chain_stage"], on_stage)

        def post_trial(agent, tok, res, exc, *a, **k):
            if me.env is None or exc is not None:
                return
            st = agent.config.agent_settings
            me.trials.append((me.env.game.step_counter, agent.config.ref, bool(res), bool(st.repeat_kill_chain_stages), bool(st.repeat_kill_chain),
                              getattr(agent.current_kill_chain_stage, "name", None)))

        probes.wrap(AbstractTAP, "_agent_trial_handler", None, post_trial)

    def after_reset(self, env, obs, ep):
        self.samples = {}
        self.trials = []
        self.env = env

    def after_step(self, env, action, res, t):
        pass

    def check_trials(self, env, cov, found):
        """a stage's probability trial that fails while repeat_kill_chain_stages is false fails the kill chain: when the agent's turn is over the
        stage is FAILED (or, with repeat_kill_chain, already NOT_STARTED again) - it is not still the stage that was being attempted"""
        for step, name, ok, rep_stages, rep_chain, stage_after_handler in self.trials:
            cov.inc("tap_stage_trials")
            if ok:
                continue
            cov.inc("tap_stage_trials_failed")
            if rep_stages:
                continue
            cov.inc("tap_stage_trials_failed_without_stage_repeat")
            writes = [(t, a, b) for t, a, b in self.samples.get(name, []) if t == step]
            end = writes[-1][2] if writes else stage_after_handler
            if end not in ("FAILED", "NOT_STARTED"):
                found.append((f"failed-trial-does-not-fail-kill-chain/{env.game.agents[name].config.type}",
                              f"{name}: step {step}: a stage's probability trial failed with repeat_kill_chain_stages=false, but the kill chain stage at the end of "
                              f"the agent's turn is {end} (stage writes in that step: {writes})"))
                return


def mutate_settings(cfg, rnd, cov, clean=None, p_nodes=0.6, p_repeat_scan=0.3):
    """generated settings for every scripted agent of a shipped scenario"""
    cfg = copy.deepcopy(cfg)
    for a in cfg["agents"]:
        s = a.get("agent_settings") or {}
        t = a["type"]
        if t in ("periodic-agent", "red-database-corrupting-agent"):
            f = rnd.randint(2, 12)
            s["frequency"], s["variance"] = f, rnd.randint(0, f - 1)
            s["start_step"] = rnd.randint(0, 15)
            if t == "periodic-agent":
                s["start_variance"] = rnd.randint(0, min(3, s["start_step"]))
                s["max_executions"] = rnd.choice([1, 2, 3, 1000])
        elif t == "probabilistic-agent":
            n = len(a["action_space"]["action_map"])
            p = [rnd.random() for _ in range(n)]
            if n > 1 and rnd.random() < 0.6:
                p[rnd.randrange(n)] = 0.0
            if sum(p) == 0:
                p[0] = 1.0
            tot = sum(p)
            p = [x / tot for x in p]
            p[-1] = max(0.0, 1.0 - sum(p[:-1])) if p[-1] != 0.0 else 0.0
            if p[-1] == 0.0:
                j = max(range(n), key=lambda i: p[i])
                p[j] = p[j] + (1.0 - sum(p))
            keys = list(range(n))
            rnd.shuffle(keys)  # textual order of the table is irrelevant
            s["action_probabilities"] = {k: p[k] for k in keys}
        if t in ("tap-001", "tap-003") and s.get("default_starting_node") == "ST_PROJ-A-PRV-PC-1" and rnd.random() < p_nodes:
            # the alternative the shipped files document in a comment: several candidate start hosts (any order)
            nodes = ["ST_PROJ-A-PRV-PC-1", "ST_PROJ-B-PRV-PC-2", "ST_PROJ-C-PRV-PC-3"]
            rnd.shuffle(nodes)
            s["starting_nodes"] = nodes[: rnd.choice([2, 3, 3])]
            cov.inc("tap_several_starting_nodes")
        if t in ("tap-001", "tap-003") and clean:
            s["frequency"], s["variance"], s["start_step"] = rnd.choice([2, 3]), 0, rnd.randint(1, 3)
            s["repeat_kill_chain"] = clean == "repeat"
            s["repeat_kill_chain_stages"] = True
        elif t in ("tap-001", "tap-003"):
            f = rnd.randint(2, 6)
            s["frequency"], s["variance"] = f, rnd.randint(0, min(2, f - 1))
            s["start_step"] = rnd.randint(1, 8)
            if rnd.random() < 0.35:  # earliest possible first turn: start_step <= variance puts it on timestep 0
                s["start_step"] = rnd.randint(0, 2)
                s["variance"] = min(f - 1, max(s["start_step"], s["variance"]))
                cov.inc("tap_first_turn_may_be_step0")
            s["repeat_kill_chain"] = rnd.random() < 0.5
            s["repeat_kill_chain_stages"] = rnd.random() < 0.7
            for stg, o in (s.get("kill_chain") or {}).items():
                if isinstance(o, dict) and "probability" in o:
                    o["probability"] = rnd.choice([1, 1, 1, 0.5, 0.8])
            prop = (s.get("kill_chain") or {}).get("PROPAGATE")
            if t == "tap-001" and isinstance(prop, dict) and len(prop.get("network_addresses") or []) >= 3 and rnd.random() < p_repeat_scan:
                # the documented alternative: keep scanning (in random order) once every listed network was swept without finding the
                # target - the network that contains the target is left out so that this really happens, and turns come quickly
                prop["network_addresses"] = list(prop["network_addresses"][:-1])
                prop["repeat_scan"], prop["scan_attempts"], prop["probability"] = True, 60, 1
                s["frequency"], s["variance"], s["start_step"] = rnd.choice([1, 2]), 0, rnd.randint(1, 2)
                for stg, o in (s.get("kill_chain") or {}).items():
                    if isinstance(o, dict) and "probability" in o:
                        o["probability"] = 1
                cov.inc("tap_repeat_scan")
        a["agent_settings"] = s
    return cfg


class Check:
    pid = "C19"
    level = "exploration"
    rule = ("case = shipped UC2 (probabilistic greens + DM red), UC7 (TAP001 + periodic/probabilistic greens), UC7-TAP003 and "
            "generated scenarios, each with generated agent settings (start step 0-15, start variance, frequency 2-12, variance "
            "0..f-1, max executions, probability tables with zeros written in shuffled key order, TAP stage probabilities "
            "{1,0.8,0.5}, repeat flags both ways) x seed x blue interference policy (power/adversarial/random: shuts down red "
            "nodes, edits ACLs, removes applications, changes passwords) x 2 episodes; histories and sampled kill-chain stages are "
            "checked offline. Non-trivial: >=10 scripted executions observed; distinct by (scenario, seed).")
    assumptions = [
        "probabilities are keyed by action index; TAP turns may be do-nothing, so TAP gaps must be decomposable into k>=1 intervals of [f-v, f+v]",
        "final implemented kill-chain stage: TAP001 PAYLOAD, TAP003 EXPLOIT (later enum members are not implemented stages); TAP agents may act from their starting nodes and the configured C2 server",
        "max_executions is judged for periodic-agent only (the DM agent does not document it)",
    ]
    min_monitor = {"kill_chains_completed": 2, "executions_observed": 300, "gaps_measured": 200, "tap_actions_failed": 40, "tap_stage_trials_failed_without_stage_repeat": 5, "probabilistic_choices": 2000, "agents_with_zero_probability_entries": 5}
    case_timeout = {"quick": 2400, "thorough": 10800}

    def cases(self, tier, seed):
        q = tier == "quick"
        specs = []
        pols = ["power", "adversarial", "random", "quiet"]
        for i in range(6 if q else 24):
            specs.append({"name": f"uc2-{i}", "src": ["shipped", "data_manipulation.yaml"], "seed": seed * 100 + i, "policy": pols[i % 4],
                          "steps": 100 if q else 128, "episodes": 2})
        for i in range(3 if q else 10):
            specs.append({"name": f"uc7-tap001-{i}", "src": ["shipped", "uc7_config.yaml"], "seed": seed * 100 + i, "policy": pols[(i + 3) % 4],
                          "steps": 60 if q else 128, "episodes": 1 if q else 2})
        for i in range(3 if q else 10):
            specs.append({"name": f"uc7-tap003-{i}", "src": ["shipped", "uc7_config_tap003.yaml"], "seed": seed * 100 + i, "policy": pols[(i + 3) % 4],
                          "steps": 60 if q else 128, "episodes": 1 if q else 2})
        # blue interferes with exactly the nodes the attacker is using, so that attacker actions fail in the middle of the chain
        for i in range(8 if q else 24):
            f = ["uc7_config.yaml", "uc7_config_tap003.yaml"][i % 2]
            specs.append({"name": f"{f}-disrupt-{i}", "src": ["shipped", f], "seed": seed * 100 + 70 + i, "policy": "disrupt", "steps": 90 if q else 128,
                          "episodes": 1 if q else 2, "clean": [None, None, "repeat", "once"][i % 4]})
        for i in range(2 if q else 8):
            specs.append({"name": f"uc2-disrupt-{i}", "src": ["shipped", "data_manipulation.yaml"], "seed": seed * 100 + 80 + i, "policy": "disrupt",
                          "steps": 100 if q else 128, "episodes": 2})
        # undisturbed runs (blue idles) so that the kill chains run to completion, with and without repeating
        for i, clean in enumerate(["once", "repeat"]):
            specs.append({"name": f"uc7-tap001-complete-{clean}", "src": ["shipped", "uc7_config.yaml"], "seed": seed * 100 + 50 + i, "policy": "idle",
                          "steps": 128 if q else 200, "episodes": 1, "clean": clean})
            specs.append({"name": f"uc7-tap003-complete-{clean}", "src": ["shipped", "uc7_config_tap003.yaml"], "seed": seed * 100 + 50 + i, "policy": "idle",
                          "steps": 80 if q else 160, "episodes": 1, "clean": clean})
        for i in range(6 if q else 24):  # stages that fail their probability trial late in the chain, with stage repetition off
            f = ["uc7_config.yaml", "uc7_config_tap003.yaml"][i % 2]
            specs.append({"name": f"{f}-stage-fail-{i}", "src": ["shipped", f], "seed": seed * 100 + 30 + i, "policy": "idle", "steps": 100 if q else 160,
                          "episodes": 2, "clean": ["repeat", "once"][(i // 2) % 2], "stage_fail": [0.8, 0.9, 0.6][i % 3]})
        for i in range(12 if q else 60):
            sd = seed * 1000 + i
            specs.append({"name": f"gen-{sd}", "src": ["gen", {"seed": sd, "knobs": {"p_random_agent": 0.5}}], "seed": sd, "policy": pols[i % 4],
                          "steps": 48 if q else 96, "episodes": 2})
        return specs

    def run_case(self, spec):
        cov, out = Cov(), []
        rnd = random.Random(spec["seed"])
        cfg, meta = envrun.scenario_source(*spec["src"])
        cfg = mutate_settings(cfg, rnd, cov, spec.get("clean"))
        if spec.get("stage_fail"):  # every stage may fail its probability trial, and a failed stage is not repeated
            for a in cfg["agents"]:
                if a["type"] in TAP_FINAL:
                    s_ = a["agent_settings"]
                    s_["repeat_kill_chain_stages"] = False
                    for o in (s_.get("kill_chain") or {}).values():
                        if isinstance(o, dict) and "probability" in o:
                            o["probability"] = spec["stage_fail"]
        cfg["game"]["max_episode_length"] = spec["steps"]
        env = envdrv.make_env(cfg)
        pol = envrun.Policy(spec["policy"], spec["seed"])
        from pv import probes

        probes.uninstall_all()
        sampler = StageSampler()
        sampler.install()
        try:
            return self._run(spec, cfg, env, pol, sampler, cov, out)
        finally:
            probes.uninstall_all()

    def _run(self, spec, cfg, env, pol, sampler, cov, out):
        for ep in range(spec["episodes"]):
            env.reset(seed=spec["seed"] + ep)
            sampler.after_reset(env, None, ep)
            crashed = False
            for t in range(spec["steps"]):
                try:
                    env.step(pol.choose(env, t))
                except Exception as e:
                    et, site = envrun.exc_site(e)
                    out.append(viol(f"step-raises/{et}@{site}", f"{spec['src']} episode {ep} step {t}: env.step raised {et}: {str(e)[:200]}",
                                    {"settings": [a.get("agent_settings") for a in cfg["agents"] if a["type"].startswith("tap")], "seed": spec["seed"]}))
                    crashed = True
                    break
            if crashed:
                break
            tfound = []
            sampler.check_trials(env, cov, tfound)
            for mech, msg in tfound:
                if not any(v["mech"] == mech for v in out):
                    out.append(viol(mech, f"{spec['src']} episode {ep}: {msg}", {"settings": [a.get("agent_settings") for a in cfg["agents"] if a["type"].startswith("tap")],
                                                                                  "seed": spec["seed"]}))
            for a in cfg["agents"]:
                name, typ = a["ref"], a["type"]
                ag = env.game.agents[name]
                hist = list(ag.history)
                found = []
                if typ in ("periodic-agent", "red-database-corrupting-agent"):
                    check_periodic(name, a, hist, found, cov)
                elif typ == "probabilistic-agent":
                    check_probabilistic(name, a, hist, found, cov)
                elif typ == "random-agent":
                    check_random(name, a, hist, found, cov)
                elif typ in TAP_FINAL:
                    check_tap(name, a, hist, sampler.samples.get(name, []), found, cov)
                cov.hit("agents_checked", typ)
                for mech, msg in found:
                    if not any(v["mech"] == mech for v in out):
                        out.append(viol(mech, f"{spec['src']} episode {ep}: {msg}", {"settings": a.get("agent_settings"), "seed": spec["seed"],
                                                                                      "history_tail": [(h.timestep, h.action, h.response.status) for h in hist if h.action != "do-nothing"][:40]}))
        nontrivial = cov.d.get("executions_observed", 0) >= 10
        return {"violations": out, "cov": cov.d, "nontrivial": nontrivial, "digest": digest([spec["src"], spec["seed"]]),
                "sample": {"case": spec, "executions": cov.d.get("executions_observed"), "stages": cov.d.get("tap_stages_reached")}}


CHECK = Check()
