"""C20 - the simulation built from a scenario file is what the file says; formatting / mapping-key order do not matter.

Monitors: (1) two independent inventories (declared from the dict per the configuration docs vs built, read from the
objects right after loading) diffed item by item; (2) metamorphic differential: the scenario re-serialised (yaml
round-trip, flow style) and with the keys of EVERY mapping shuffled (lists untouched) must give the same seeded
trajectory as the original.
"""
from __future__ import annotations

import copy
import random

from pv import corpus, envdrv, envrun, gen, snap, traj
from pv.harness import Cov, digest, viol
from pv.models import inventory


def shuffle_keys(x, rnd):
    if isinstance(x, dict):
        items = list(x.items())
        rnd.shuffle(items)
        return {k: shuffle_keys(v, rnd) for k, v in items}
    if isinstance(x, list):
        return [shuffle_keys(v, rnd) for v in x]
    return x


def reserialise(cfg, style):
    import yaml

    if style == "flow":
        return yaml.safe_load(yaml.safe_dump(cfg, default_flow_style=True, sort_keys=False))
    if style == "sorted":
        return yaml.safe_load(yaml.safe_dump(cfg, default_flow_style=False, sort_keys=True))
    return yaml.safe_load(yaml.safe_dump(cfg, default_flow_style=False, sort_keys=False, default_style='"'))


def cfg_of(src, ep=0):
    if src[0] == "gen":
        return gen.gen(src[1]["seed"], src[1].get("family"), src[1].get("knobs"))[0]
    if src[0] == "shipped":
        return envdrv.quiet(corpus.shipped(src[1]))
    if src[0] == "asset":
        return envdrv.quiet(corpus.test_asset(src[1]))
    if src[0] == "folder":
        import os
        from primaite.session.episode_schedule import build_scheduler

        return envdrv.quiet(build_scheduler(os.path.join(corpus.PKG, src[1]))(ep))
    raise ValueError(src)


def kind_of(path):
    parts = [p for p in path.split("/") if p]
    # nodes/<host>/<section>/...  -> section (+ option name)
    if len(parts) >= 3 and parts[0] == "nodes":
        sec = parts[2]
        if sec == "software" and len(parts) >= 5:
            return f"software/{parts[3]}/{'/'.join(parts[4:6])}"
        if sec == "acl":
            return "acl/" + "/".join(p for p in parts[3:] if not p.isdigit())[:40]
        return sec
    if parts and parts[0] == "agents" and len(parts) >= 3:
        return "agents/" + "/".join(parts[2:4])
    return parts[0] if parts else path


def share_subtrees(x, pool=None):
    """the object graph a YAML loader builds for anchors/aliases: every pair of EQUAL mappings / sequences becomes ONE shared object"""
    pool = {} if pool is None else pool
    if isinstance(x, dict):
        y = {k: share_subtrees(v, pool) for k, v in x.items()}
    elif isinstance(x, list):
        y = [share_subtrees(v, pool) for v in x]
    else:
        return x
    key = repr(y)
    if len(key) > 12:
        return pool.setdefault(key, y)
    return y


def count_shared(x, seen=None, hits=None):
    seen, hits = ({} if seen is None else seen), ([0] if hits is None else hits)
    if isinstance(x, (dict, list)):
        if id(x) in seen:
            hits[0] += 1
            return hits[0]
        seen[id(x)] = True
        for v in (x.values() if isinstance(x, dict) else x):
            count_shared(v, seen, hits)
    return hits[0]


def case_inventory(spec, cov, out):
    cfg = cfg_of(spec["src"], spec.get("episode", 0))
    try:
        game = corpus.build_game(cfg)
    except Exception as e:
        et, site = envrun.exc_site(e)
        if spec["src"][0] == "gen":
            cov.inc("diag_generated_scenario_rejected")
            return
        out.append(viol(f"scenario-does-not-load/{et}@{site}", f"{spec['src']}: from_config raised {et}: {str(e)[:200]}"))
        return
    decl = inventory.declared(cfg)
    blt = inventory.built(game, cfg)
    names = inventory.reward_class_names()
    for a in decl["agents"].values():
        a["rewards"] = [[names.get(t, t), w] for t, w in a["rewards"]]
    cov.inc("scenarios_inventoried")
    for n in decl["nodes"].values():
        cov.hit("items", "nodes")
        cov.hit("items", "nics", len(n.get("nics", {})))
        cov.hit("items", "software", len(n.get("software", {})))
        cov.hit("items", "software_options", sum(len(s["options"]) for s in n.get("software", {}).values()))
        cov.hit("items", "acl_rules", sum(len(v) for v in (n.get("acl") or {}).values()))
        cov.hit("items", "routes", len(n.get("routes") or []))
        cov.hit("items", "users", len(n.get("users") or {}))
        cov.hit("items", "folders", len(n.get("folders") or {}))
    cov.hit("items", "links", len(decl["links"]))
    cov.hit("items", "agents", len(decl["agents"]))
    seen = set()
    a, b = decl, blt
    # report every distinct kind of difference (walk repeatedly, masking what was reported)
    for _ in range(12):
        d = snap.first_diff(a, b)
        if not d:
            break
        path, dv, bv = d
        k = kind_of(path)
        if k not in seen:
            seen.add(k)
            out.append(viol(f"built-differs-from-declared/{k}", f"{spec['src']}: {path}: declared {str(dv)[:160]!r}, built {str(bv)[:160]!r}",
                            {"path": path, "declared": str(dv)[:400], "built": str(bv)[:400]}))
        # mask this path in both and continue
        a, b = copy.deepcopy(a), copy.deepcopy(b)
        _mask(a, path)
        _mask(b, path)
    # the same scenario with every pair of equal blocks being ONE shared object (what a YAML loader returns for anchors / aliases, and
    # what a script reusing one options dict produces) must build the same simulation
    shared = share_subtrees(copy.deepcopy(cfg))
    nshared = count_shared(shared)
    if nshared:
        cov.inc("scenarios_with_shared_blocks")
        cov.inc("shared_block_references", nshared)
        try:
            blt2 = inventory.built(corpus.build_game(shared), cfg)
        except Exception as e:
            et, site = envrun.exc_site(e)
            out.append(viol(f"shared-blocks-scenario-does-not-load/{et}@{site}", f"{spec['src']}: with equal blocks shared, from_config raised {et}: {str(e)[:200]}"))
            return
        d = snap.first_diff(blt, blt2)
        if d:
            path, v1, v2 = d
            out.append(viol(f"built-differs-when-equal-blocks-are-shared/{kind_of(path)}", f"{spec['src']}: {path}: built {str(v1)[:160]!r} from the plain "
                            f"scenario, {str(v2)[:160]!r} when equal blocks are one shared object", {"path": path}))


def _mask(d, path):
    parts = [p for p in path.replace("[len]", "").split("/") if p]
    cur = d
    for p in parts[:-1]:
        p2 = p.split("[")[0]
        if isinstance(cur, dict) and p2 in cur:
            cur = cur[p2]
        else:
            return
    last = parts[-1].split("[")[0] if parts else None
    if isinstance(cur, dict) and last in cur:
        cur[last] = "<masked>"


def case_node_sets(spec, cov, out):
    """node_sets (office-lan) expanded by the loader vs the structure its documentation promises: num_pcs computers named
    pc_<i>_<lan> with consecutive addresses, every computer cabled to exactly one 24-port edge switch holding at most 23 of them, as few
    edge switches as that allows, a core switch exactly when there are several edge switches, a router exactly when asked for - and
    then cabled so that every computer can reach it."""
    from primaite.simulator.network.hardware.nodes.host.computer import Computer
    from primaite.simulator.network.hardware.nodes.network.router import Router
    from primaite.simulator.network.hardware.nodes.network.switch import Switch

    n_pcs, inc, lan, base, start = spec["num_pcs"], spec["include_router"], spec["lan"], spec["subnet_base"], spec["start"]
    cfg = corpus.Net().scenario()
    cfg["simulation"]["network"]["node_sets"] = [{"type": "office-lan", "lan_name": lan, "subnet_base": base, "pcs_ip_block_start": start,
                                                   "num_pcs": n_pcs, "include_router": inc, "bandwidth": spec.get("bandwidth", 100)}]
    ctx = {"node_set": cfg["simulation"]["network"]["node_sets"][0]}
    try:
        game = corpus.build_game(cfg)
    except Exception as e:
        et, site = envrun.exc_site(e)
        out.append(viol(f"node-set-does-not-load/{et}@{site}", f"office-lan {ctx['node_set']}: from_config raised {et}: {str(e)[:200]}", ctx))
        return
    net = game.simulation.network
    cov.inc("node_sets_built")
    cov.hit("node_set_sizes", f"{n_pcs}|router={inc}")
    nodes = {x.config.hostname: x for x in net.nodes.values()}
    pcs = {h: x for h, x in nodes.items() if isinstance(x, Computer)}
    sws = {h: x for h, x in nodes.items() if isinstance(x, Switch)}
    rts = {h: x for h, x in nodes.items() if isinstance(x, Router)}

    def bad(kind, msg):
        if not any(o["mech"] == f"node-set-built-differs-from-declared/{kind}" for o in out):
            out.append(viol(f"node-set-built-differs-from-declared/{kind}", f"office-lan num_pcs={n_pcs} include_router={inc}: {msg}", ctx))

    want_pcs = {f"pc_{i}_{lan}": f"192.168.{base}.{start + i - 1}" for i in range(1, n_pcs + 1)}
    got_pcs = {h: str(x.network_interface[1].ip_address) for h, x in pcs.items()}
    if got_pcs != want_pcs:
        bad("computers", f"computers {sorted(got_pcs.items())[:3]}.. ({len(got_pcs)}) != declared {sorted(want_pcs.items())[:3]}.. ({len(want_pcs)})")
    n_edge = -(-n_pcs // 23)
    want_sw = {f"switch_edge_{k}_{lan}" for k in range(1, n_edge + 1)} | ({f"switch_core_{lan}"} if n_edge > 1 else set())
    if set(sws) != want_sw:
        bad("switches", f"switches {sorted(sws)} != {sorted(want_sw)} ({n_edge} edge switch(es) hold {n_pcs} computers at 23 each)")
    if set(rts) != ({f"router_{lan}"} if inc else set()):
        bad("router", f"routers {sorted(rts)} for include_router={inc}")
    # cabling: every computer on exactly one edge switch, at most 23 per switch; everything in one connected component (incl. the router)
    adj = {h: set() for h in nodes}
    per_switch = {}
    for link in net.links.values():
        a, b = link.endpoint_a._connected_node.config.hostname, link.endpoint_b._connected_node.config.hostname
        adj[a].add(b)
        adj[b].add(a)
    for h in pcs:
        nb = adj[h]
        if len(nb) != 1 or not next(iter(nb)).startswith("switch_edge_"):
            bad("cabling", f"{h} is cabled to {sorted(nb)} (expected exactly one edge switch)")
        else:
            per_switch[next(iter(nb))] = per_switch.get(next(iter(nb)), 0) + 1
    if any(v > 23 for v in per_switch.values()):
        bad("cabling", f"an edge switch holds more than 23 computers: {per_switch}")
    if nodes:
        seen, todo = set(), [next(iter(nodes))]
        while todo:
            x = todo.pop()
            if x not in seen:
                seen.add(x)
                todo += list(adj[x] - seen)
        if seen != set(nodes):
            bad("connectivity", f"nodes not connected to the rest of the LAN: {sorted(set(nodes) - seen)[:5]}")
    cov.inc("node_set_items_compared", len(nodes) + len(net.links))


def case_metamorphic(spec, cov, out):
    rnd = random.Random(spec["seed"])
    cfg = cfg_of(spec["src"])
    n = len(next(a for a in cfg["agents"] if a["type"] == "proxy-agent")["action_space"]["action_map"])
    acts = [[0 if rnd.random() < 0.3 else rnd.randrange(n) for _ in range(spec["steps"])]]
    base_spec = {"src": {"cfg": cfg}, "seed": spec["seed"], "actions": acts, "keep_obs": True, "max_len": spec["steps"] + 2}
    base = traj.run_child(base_spec, hashseed=0)
    if "error" in base:
        return {"harness_error": f"baseline failed: {base['error'][-300:]}"}
    shared = share_subtrees(copy.deepcopy(cfg))
    cov.inc("shared_subtree_references", count_shared(shared))
    variants = [("reserialise-flow", reserialise(cfg, "flow")), ("reserialise-quoted", reserialise(cfg, "quoted")), ("shared-subtrees", shared)]
    for i in range(spec["perms"]):
        variants.append((f"shuffle-keys-{i}", shuffle_keys(cfg, random.Random(spec["seed"] * 100 + i))))
    from concurrent.futures import ThreadPoolExecutor

    def run(v):
        return v[0], v[1], traj.run_child({**base_spec, "src": {"cfg": v[1]}}, hashseed=0)

    with ThreadPoolExecutor(max_workers=3) as ex:
        res = list(ex.map(run, variants))
    for name, vcfg, r in res:
        if "error" in r:
            out.append(viol(f"variant-does-not-run/{name.rsplit('-', 1)[0]}", f"{spec['src']}: the {name} variant of the scenario failed: {r['error'][-300:]}"))
            continue
        cov.inc("variants_compared")
        cov.hit("variant_kinds", name.rsplit("-", 1)[0] if name.startswith("shuffle") else name)
        cov.inc("steps_compared", len(r["steps"]))
        dv = traj.first_divergence(base["steps"], r["steps"])
        if dv:
            i, ep, t, what, detail = dv
            # locate which mapping's order matters: retry with only one top-level section shuffled
            if name.startswith("shuffle"):
                if "culprit" not in spec:
                    spec["culprit"] = locate(cfg, vcfg, base, base_spec, upto=max(12, (t or 0) + 3) if ep in (0, None) else 12)
                culprit = spec["culprit"]
            else:
                culprit = "n/a"
            kind = "key-order" if name.startswith("shuffle") else name
            mech = f"behaviour-depends-on-{kind}/{culprit}"
            if not any(v["mech"] == mech for v in out):
                out.append(viol(mech, f"{spec['src']}: variant {name} (same content) diverges at step {t}: {what}: {str(detail)[:300]}; mapping whose key order matters: {culprit}",
                                {"variant": name, "divergence": str(dv)[:1200]}))


def locate(cfg, vcfg, base, base_spec, upto=12):
    """which mapping's key order changes behaviour? reverse the key order of one group of same-named mappings at a time"""
    from concurrent.futures import ThreadPoolExecutor

    cands = []

    def walk(x, path):
        if isinstance(x, dict):
            if len(x) > 1:
                cands.append(path)
            for k, v in x.items():
                walk(v, path + [k])
        elif isinstance(x, list):
            for i, v in enumerate(x):
                walk(v, path + [i])

    walk(cfg, [])
    groups = {}
    for p in cands:
        key = "/".join(str(q) if not isinstance(q, int) else "*" for q in p[-2:]) or "<root>"
        groups.setdefault(key, []).append(p)

    def test(item):
        key, paths = item
        c2 = copy.deepcopy(cfg)
        for p in paths:
            cur = c2
            for q in p[:-1]:
                cur = cur[q]
            tgt = cur[p[-1]] if p else c2
            rev = dict(reversed(list(tgt.items())))
            if p:
                cur[p[-1]] = rev
            else:
                c2 = rev
        r = traj.run_child({**base_spec, "src": {"cfg": c2}, "actions": [base_spec["actions"][0][:upto]]}, hashseed=0)
        short = [s for s in base["steps"] if s[0] == 0 and s[1] < upto]
        return key if ("error" in r or traj.first_divergence(short, r["steps"])) else None

    with ThreadPoolExecutor(max_workers=6) as ex:
        hits = [k for k in ex.map(test, sorted(groups.items())) if k]
    return "+".join(hits[:3]) if hits else "<combination>"


def own_join(folder, ep):
    """The documented meaning of an episode-scheduled folder, read independently of primaite.session.episode_schedule: episode k is built
    from the files schedule[k mod len(schedule)] followed by the base scenario, joined as text and parsed as one YAML document (anchors
    defined in the variant files are referenced by the base file); nested agent lists are flattened."""
    import os

    import yaml

    sch = yaml.safe_load(open(os.path.join(folder, "schedule.yaml")))
    entries = sch["schedule"]
    keys = sorted(entries)
    files = entries[keys[ep % len(keys)]]
    text = "\n".join([open(os.path.join(folder, f)).read() for f in files] + [open(os.path.join(folder, sch["base_scenario"])).read()])
    cfg = yaml.safe_load(text)
    flat = []
    for a in cfg.get("agents", []):
        if isinstance(a, (list, tuple)):
            flat.extend(a)
        else:
            flat.append(a)
    cfg["agents"] = flat
    return cfg, tuple(files)


def case_folder_env(spec, cov, out):
    """The way a user loads a folder: PrimaiteGymEnv(env_config=<folder>), episode after episode through the schedule and past its end
    (so that schedule entries are built a second and a third time by the SAME environment); after every reset the built game must be what
    the episode's files say."""
    import shutil

    folder, meta = envrun.scenario_source(*spec["src"])
    tmp = folder if spec["src"][0] == "genfolder" else None
    try:
        env = envdrv.make_env(folder)
        names = inventory.reward_class_names()
        seen_entries = {}
        for ep in range(spec["episodes"]):
            if ep > 0:
                for _ in range(spec.get("steps", 3)):
                    env.step(0)
                env.reset()
            cfg, files = own_join(folder, ep)
            decl = inventory.declared(cfg)
            for a in decl["agents"].values():
                a["rewards"] = [[names.get(t, t), w] for t, w in a["rewards"]]
            blt = inventory.built(env.game, cfg)
            cov.inc("scenarios_inventoried")
            cov.inc("folder_env_episodes_inventoried")
            seen_entries[files] = seen_entries.get(files, 0) + 1
            if seen_entries[files] > 1:
                cov.inc("folder_env_entries_built_again")
            d = snap.first_diff(decl, blt)
            if d:
                path, dv, bv = d
                again = "built-again" if seen_entries[files] > 1 else "first-build"
                out.append(viol(f"built-differs-from-declared/{kind_of(path)}@episode-schedule/{again}",
                                f"{spec['src']}: episode {ep} (files {list(files)}, {again} by the same environment): {path}: declared {str(dv)[:160]!r}, built {str(bv)[:160]!r}",
                                {"path": path, "declared": str(dv)[:400], "built": str(bv)[:400], "episode": ep}))
                return
        env.close()
    finally:
        if tmp:
            shutil.rmtree(tmp, ignore_errors=True)


RUN = {"inventory": case_inventory, "folder_env": case_folder_env, "metamorphic": case_metamorphic, "node_sets": case_node_sets}


class Check:
    pid = "C20"
    level = "exploration"
    rule = ("(inventory) every shipped scenario incl. each episode of each scheduled folder, buildable test assets, and generated "
            "lan/routed/dmz scenarios with non-default option values: declared inventory (nodes, NICs+addresses, links+bandwidth, "
            "routes, ACL rules per list and position, software with options, users, folders/files, agents with action maps, reward "
            "components and settings, initial power state) vs the inventory read from the built objects. (metamorphic) scenario "
            "re-serialised (flow style / quoted) and with every mapping's keys shuffled, run with the same seed and action list. "
            "Non-trivial: scenario with >=3 nodes and >=1 declared option; distinct by source.")
    assumptions = [
        "only items the statement enumerates are inventoried; a `defaults` block and undocumented options are not judged",
        "system software of the node type (class attribute SYSTEM_SOFTWARE), the router's documented default ACL rules and software auto-installed as a dependency (ftp-client for database-service) are allowed extras",
        "options are compared through the runtime attribute that carries them (pv.models.inventory.RUNTIME_ATTR); options without a known carrier are not judged",
    ]
    min_monitor = {"scenarios_inventoried": 20, "variants_compared": 20, "steps_compared": 800}
    case_timeout = {"quick": 2400, "thorough": 10800}

    def cases(self, tier, seed):
        q = tier == "quick"
        specs = []
        for f in envrun.SHIPPED_SINGLE + ["data_manipulation_marl.yaml", "basic_lan_network_example.yaml", "client_server_p2p_network_example.yaml",
                                         "multi_lan_internet_network_example.yaml"]:
            specs.append({"name": f"inv-{f}", "kind": "inventory", "src": ["shipped", f]})
        for f in envrun.SHIPPED_FOLDERS:
            for ep in range(3 if q else 6):
                specs.append({"name": f"inv-{f}-ep{ep}", "kind": "inventory", "src": ["folder", f], "episode": ep})
        for f in envrun.SHIPPED_FOLDERS:  # one environment walking through the schedule and past its end, inventoried after every reset
            specs.append({"name": f"folder-env-{f}", "kind": "folder_env", "src": ["folder", f], "episodes": 6 if q else 12, "steps": 2})
        for g in range(3 if q else 12):
            sd = seed * 1000 + 850 + g
            specs.append({"name": f"folder-env-gen-{sd}", "kind": "folder_env", "src": ["genfolder", {"seed": sd, "family": ["routed", "dmz", "wlan"][g % 3], "entries": 2 + g % 2,
                                                                                                     "pattern": [[0, 0, 1], [0], None, [0], None, [0, 0, 1]][g % 6]}],
                          "episodes": 5 if q else 9, "steps": 2})
        for f in envrun.TEST_ASSETS:
            specs.append({"name": f"inv-{f}", "kind": "inventory", "src": ["asset", f]})
        for s in range(40 if q else 300):
            specs.append({"name": f"inv-gen-{seed * 1000 + s}", "kind": "inventory", "src": ["gen", {"seed": seed * 1000 + s}]})
        for s in range(8 if q else 60):
            specs.append({"name": f"inv-gen-wlan-{seed * 1000 + 300 + s}", "kind": "inventory", "src": ["gen", {"seed": seed * 1000 + 300 + s, "family": "wlan"}]})
        for s in range(2 if q else 10):
            sd = seed * 1000 + 750 + s
            specs.append({"name": f"meta-gen-wlan-{sd}", "kind": "metamorphic", "src": ["gen", {"seed": sd, "family": "wlan"}], "seed": sd, "steps": 40 if q else 96, "perms": 3 if q else 10})
        specs.append({"name": "meta-uc2", "kind": "metamorphic", "src": ["shipped", "data_manipulation.yaml"], "seed": seed, "steps": 40 if q else 128, "perms": 3 if q else 10})
        for s in range(6 if q else 30):
            sd = seed * 1000 + 700 + s
            specs.append({"name": f"meta-gen-{sd}", "kind": "metamorphic", "src": ["gen", {"seed": sd}], "seed": sd, "steps": 40 if q else 96, "perms": 3 if q else 10})
        # node sets: every size around the 23-computers-per-switch boundaries (and a random sample in between), with and without router
        rnd = random.Random(seed)
        sizes = [1, 2, 22, 23, 24, 45, 46, 47, 69, 70] + ([] if q else [68, 92, 115, 116]) + [rnd.randint(3, 120) for _ in range(4 if q else 20)]
        for n_ in sizes:
            for inc in (True, False):
                specs.append({"name": f"office-lan-{n_}-{'router' if inc else 'norouter'}", "kind": "node_sets", "num_pcs": n_, "include_router": inc,
                              "lan": rnd.choice(["hq", "CORP_LAN", "L"]), "subnet_base": rnd.randint(2, 200), "start": rnd.randint(10, 100), "bandwidth": rnd.choice([100, 150, 45])})
        return specs

    def run_case(self, spec):
        cov, out = Cov(), []
        r = RUN[spec["kind"]](spec, cov, out)
        if isinstance(r, dict) and "harness_error" in r:
            return r
        return {"violations": out, "cov": cov.d, "nontrivial": cov.d.get("scenarios_inventoried", 0) + cov.d.get("variants_compared", 0) + cov.d.get("node_sets_built", 0) > 0,
                "digest": digest(spec.get("src") or spec["name"]) + spec["kind"][:3] + str(spec.get("episode", "")), "sample": {"case": spec, "items": cov.d.get("items")}}


CHECK = Check()
