"""C18 - a link never carries more than its bandwidth in a tick; loads start at zero; down links carry nothing.

Monitors (attached from outside):
  * field-write tap on Link.current_load - invariant at every write, previous value in hand
  * wrapper on Link.transmit_frame - (a) both endpoints enabled at crossing time, (b) conservation shadow: sum of the
    sizes of delivered frames this tick == current_load at quiescence, (c) nesting depth observed
  * wrapper on AirSpace.transmit - channel load <= capacity after every transmission
  * post-hook on Network.pre_timestep - all loads are zero
Workload: bandwidth = k x (measured load of the same traffic on an unconstrained link) and k x one frame.
"""
from __future__ import annotations

import copy
import random

from pv import corpus, probes
from pv.harness import Cov, digest, viol

REL = 1e-9


class LinkMonitor:
    def __init__(self, cov, out, ctx):
        self.cov, self.out, self.ctx = cov, out, ctx
        self.depth = 0
        self.max_depth = 0
        self.delivered = {}  # link uuid -> sum of sizes delivered this tick
        self.max_ratio = 0.0
        self.drops = 0
        self.events = []
        self.air_sent = {}  # frequency (Hz) -> sum of the sizes of the frames put on the air this tick (own count)

    def v(self, mech, msg):
        if not any(o["mech"] == mech for o in self.out):
            self.out.append(viol(mech, msg, {"ctx": self.ctx, "events": self.events[-25:]}))

    def install(self):
        from primaite.simulator.network.airspace import AirSpace
        from primaite.simulator.network.container import Network
        from primaite.simulator.network.hardware.base import Link

        mon = self

        def on_load(link, field, old, new):
            mon.cov.inc("load_writes")
            if new is None:
                return
            if new == 0.0:
                # reset (tick start, or an endpoint went down: Link.endpoint_down zeroes the load by design)
                mon.delivered[link.uuid] = 0.0
            if link.bandwidth > 0:
                mon.max_ratio = max(mon.max_ratio, new / link.bandwidth)
            mon.events.append(("load", str(link), round(old or 0.0, 9), round(new, 9), "depth", mon.depth))
            if new > link.bandwidth * (1 + REL) + 1e-15:
                kind = "nested" if mon.max_depth_this_top > 1 else "flat"
                mon.v(f"wired-load-exceeds-bandwidth/{kind}",
                      f"link {link}: current_load {new:.9f} > bandwidth {link.bandwidth:.9f} (previous {old}) at nesting depth {mon.depth}")
            if new < -1e-15:
                mon.v("wired-load-negative", f"link {link}: current_load {new}")

        probes.tap_setattr(Link, ["current_load"], on_load)

        def pre_tx(link, sender_nic, frame):
            mon.depth += 1
            if mon.depth == 1:
                mon.max_depth_this_top = 1
            mon.max_depth_this_top = max(mon.max_depth_this_top, mon.depth)
            mon.max_depth = max(mon.max_depth, mon.depth)
            a, b = link.endpoint_a, link.endpoint_b
            if not (a.enabled and b.enabled):
                mon.v("frame-crosses-down-link", f"transmit_frame on {link} with endpoint_a.enabled={a.enabled} endpoint_b.enabled={b.enabled}")
            mon.cov.inc("transmits")
            return frame.size_Mbits

        def post_tx(link, size, res, exc, sender_nic, frame):
            mon.depth -= 1
            if res:
                mon.delivered[link.uuid] = mon.delivered.get(link.uuid, 0.0) + size
                mon.cov.inc("frames_delivered")

        probes.wrap(Link, "transmit_frame", pre_tx, post_tx)
        self.max_depth_this_top = 0

        def post_can(link, tok, res, exc, frame):
            if res is False and link.is_up:
                mon.drops += 1
                mon.cov.inc("frames_dropped_at_capacity")

        probes.wrap(Link, "can_transmit_frame", None, post_can)

        def pre_air(air, frame, sender_network_interface):
            hz = sender_network_interface.frequency.frequency_hz
            mon.air_sent[hz] = mon.air_sent.get(hz, 0.0) + frame.size_Mbits
            return None

        def post_air(air, tok, res, exc, frame, sender_network_interface):
            f = sender_network_interface.frequency
            load = air.bandwidth_load.get(f.frequency_hz, 0.0)
            cap = air.get_frequency_max_capacity_mbps(f.name)
            mon.cov.inc("air_transmits")
            if cap > 0:
                mon.max_ratio_air = max(getattr(mon, "max_ratio_air", 0.0), load / cap)
            if load > cap * (1 + REL) + 1e-15:
                mon.v("wireless-load-exceeds-capacity", f"frequency {f.name}: load {load:.9f} > capacity {cap:.9f}")

        probes.wrap(AirSpace, "transmit", pre_air, post_air)

        def post_pre(net, tok, res, exc, timestep):
            mon.cov.inc("pre_timestep_checks")
            for link in net.links.values():
                if link.current_load != 0.0:
                    mon.v("wired-load-not-zero-at-tick-start", f"link {link}: load {link.current_load} right after pre_timestep")
            for f, load in net.airspace.bandwidth_load.items():
                if load != 0.0:
                    mon.v("wireless-load-not-zero-at-tick-start", f"frequency {f}: load {load} right after pre_timestep")
            mon.delivered.clear()
            mon.air_sent.clear()

        probes.wrap(Network, "pre_timestep", None, post_pre)

    def quiescent(self, net, what):
        """conservation: accounted load == sum of delivered frame sizes (links that went down are reset by design)."""
        self.cov.inc("quiescent_checks")
        for link in net.links.values():
            exp = self.delivered.get(link.uuid, 0.0)
            if not link.is_up:
                continue
            if abs(link.current_load - exp) > 1e-9 * max(1.0, exp):
                self.v("load-not-equal-delivered", f"after {what}: link {link} load {link.current_load:.9f} != delivered {exp:.9f}")
            if link.current_load > link.bandwidth * (1 + REL) + 1e-15:
                kind = "nested" if self.max_depth > 1 else "flat"
                self.v(f"wired-load-exceeds-bandwidth/{kind}", f"after {what}: link {link} load {link.current_load:.9f} > {link.bandwidth:.9f}")
        # the air: what a frequency's load says was carried this tick == what was actually put on it this tick (own count)
        for hz in set(net.airspace.bandwidth_load) | set(self.air_sent):
            load, exp = net.airspace.bandwidth_load.get(hz, 0.0), self.air_sent.get(hz, 0.0)
            self.cov.inc("air_conservation_checks")
            if abs(load - exp) > 1e-9 * max(1.0, exp):
                self.v("wireless-load-not-equal-sent", f"after {what}: frequency {hz} Hz load {load:.9f} != {exp:.9f} put on the air in this tick")


# ------------------------------------------------------------------------------------------------ scenarios
SRV_SERVICES = [
    {"type": "database-service", "options": {"db_password": None}},
    {"type": "ftp-server"},
    {"type": "web-server"},
    {"type": "dns-server", "options": {"domain_mapping": {"arcd.com": "SRV"}}},
]


def scenario(topo, bw):
    if topo == "switch":
        n = corpus.two_hosts(bw=bw)
    elif topo == "direct":
        n = corpus.Net()
        n.host("pc_a", "192.168.1.10", start_up_duration=0, shut_down_duration=0)
        n.host("srv_b", "192.168.1.20", kind="server", start_up_duration=0, shut_down_duration=0)
        n.link("pc_a", 1, "srv_b", 1, bandwidth=bw)
    elif topo == "routed":
        n = corpus.routed_two_subnets()
        for l in n.links:
            if bw is not None:
                l["bandwidth"] = bw
    else:
        raise ValueError(topo)
    srv_ip = n.node("srv_b")["ip_address"]
    svcs = copy.deepcopy(SRV_SERVICES)
    svcs[3]["options"]["domain_mapping"]["arcd.com"] = srv_ip
    n.node("srv_b")["services"] = svcs
    a = n.node("pc_a")
    a["dns_server"] = srv_ip
    a["applications"] = [
        {"type": "database-client", "options": {"db_server_ip": srv_ip}},
        {"type": "dos-bot", "options": {"target_ip_address": srv_ip, "payload": "SPOOF DATA", "port_scan_p_of_success": 1.0,
                                        "dos_intensity": 1.0, "max_sessions": 40, "repeat": True}},
        {"type": "web-browser", "options": {"target_url": "http://arcd.com/users/"}},
    ]
    a["services"] = [{"type": "ftp-client"}]
    return n.scenario()


def traffic(kind, game, rnd):
    """one tick's worth of traffic of the given kind, issued between pre_timestep and apply_timestep"""
    net = game.simulation.network
    a, b = net.get_node_by_hostname("pc_a"), net.get_node_by_hostname("srv_b")
    bip = str(b.network_interface[1].ip_address)
    sm = a.software_manager.software
    if kind == "ping":
        a.ping(bip, pings=rnd.choice([1, 2, 4]))
    elif kind == "ping-both":
        a.ping(bip, pings=2)
        b.ping(str(a.network_interface[1].ip_address), pings=2)
    elif kind == "arp-cold-ping":
        a.software_manager.arp.clear()
        b.software_manager.arp.clear()
        a.ping(bip, pings=1)
    elif kind == "db":
        c = sm["database-client"]
        c.execute()
        if c.native_connection:
            for q in ("SELECT", "INSERT", "SELECT"):
                c.query(q)
    elif kind == "db-many":
        c = sm["database-client"]
        conns = [c.get_new_connection() for _ in range(3)]
        for cn in conns:
            if cn:
                cn.query("SELECT")
        for cn in conns:
            if cn:
                cn.disconnect()
    elif kind == "web":
        sm["web-browser"].get_webpage()
    elif kind == "ftp":
        a.file_system.create_file(file_name=f"blob{rnd.randint(0, 9999)}.dat", size=rnd.choice([10, 5000, 200000]), folder_name="up")
        f = list(a.file_system.get_folder("up").files.values())[-1]
        sm["ftp-client"].send_file(src_folder_name="up", src_file_name=f.name, dest_folder_name="in", dest_file_name=f.name,
                                   dest_ip_address=b.network_interface[1].ip_address)
    elif kind == "dos":
        bot = sm["dos-bot"]
        bot.run()
        bot.execute() if hasattr(bot, "execute") else None
    elif kind == "nmap":
        a.software_manager.software["nmap"].ping_scan(target_ip_address=[bip, bip.rsplit(".", 1)[0] + ".99"], show=False)
        a.software_manager.software["nmap"].port_scan(target_ip_address=bip, show=False)
    elif kind == "recable":
        # unplug the oldest cable and plug the same two interfaces together again (the topology API of the container), then talk
        links = list(net.links.values())
        if len(links) >= 2 and rnd.random() < 0.7:
            old = links[0]
            ea, eb, bw = old.endpoint_a, old.endpoint_b, old.bandwidth
            net.remove_link(old)
            net.connect(ea, eb, bandwidth=bw)
        a.ping(bip, pings=2)
        b.ping(str(a.network_interface[1].ip_address), pings=1)
    elif kind == "toggle":
        nic = b.network_interface[1]
        nic.disable()
        a.ping(bip, pings=1)
        nic.enable()
        a.ping(bip, pings=1)
    else:
        raise ValueError(kind)


KINDS = ["ping", "ping-both", "arp-cold-ping", "db", "db-many", "web", "ftp", "dos", "nmap", "toggle", "recable"]
TOPOS = ["switch", "direct", "routed"]
FACTORS = [0.3, 0.5, 0.6, 0.9, 1.0, 1.0000001, 1.5, 2.5]


def run_ticks(cfg, kinds, seed, cov, out, ctx, nticks):
    probes.uninstall_all()
    mon = LinkMonitor(cov, out, ctx)
    mon.install()
    try:
        game = corpus.build_game(cfg)
        net = game.simulation.network
        rnd = random.Random(seed)
        loads = []
        for t in range(nticks):
            game.simulation.pre_timestep(t)
            for kind in kinds:
                mon.events.append(("traffic", kind, "tick", t))
                before = cov.d.get("transmits", 0)
                traffic(kind, game, rnd)
                cov.hit("transmits_by_traffic_kind", kind, cov.d.get("transmits", 0) - before)
                mon.quiescent(net, f"{kind}@tick{t}")
            game.simulation.apply_timestep(t + 1)
            mon.quiescent(net, f"apply_timestep@tick{t}")
            loads.append(max([l.current_load for l in net.links.values()] or [0.0]))
        return mon, loads
    finally:
        probes.uninstall_all()


def frame_size_probe(cfg):
    """size of the largest single frame observed on an unconstrained run (for frame-granularity bandwidths)"""
    return None


class Check:
    pid = "C18"
    level = "exploration"
    rule = ("case = (topology in {host-switch-host, host-host, host-router-host(+switches), wireless pair}, traffic mix from "
            "{ping, two-way ping, cold-ARP ping, db queries, 3 concurrent db connections, web GET (DNS+HTTP), FTP upload of "
            "10B..200kB, DoS bot, nmap ping+port scan, interface toggle}, bandwidth = k x the load the same traffic puts on an "
            "unconstrained link, k in {0.3,0.5,0.6,0.9,1,1+1e-7,1.5,2.5}) run for several ticks. Non-trivial: a nested "
            "transmit (depth>=2) occurred AND at least one frame was dropped at capacity or the load ratio exceeded 0.5; "
            "distinct by (topology, traffic, k).")
    assumptions = [
        "the judged load is the accounted Link.current_load / AirSpace.bandwidth_load (as the statement says), compared with tolerance 1e-9 relative",
        "frame size is whatever frame.size_Mbits returns when Link.transmit_frame is entered",
    ]
    min_monitor = {"load_writes": 500, "transmits": 500, "pre_timestep_checks": 50, "frames_dropped_at_capacity": 20}
    case_timeout = {"quick": 900, "thorough": 3600}

    def cases(self, tier, seed):
        specs = []
        rnd = random.Random(seed)
        if tier == "quick":
            combos = [(t, [k]) for t in TOPOS for k in KINDS]
            combos += [(rnd.choice(TOPOS), rnd.sample(KINDS, 3)) for _ in range(10)]
            nt = 3
        else:
            combos = [(t, [k]) for t in TOPOS for k in KINDS]
            combos += [(t, rnd.sample(KINDS, rnd.choice([2, 3, 4]))) for t in TOPOS for _ in range(25)]
            nt = 6
        for i, (topo, kinds) in enumerate(combos):
            specs.append({"name": f"{topo}-{'+'.join(kinds)}-{i}", "topo": topo, "kinds": kinds, "seed": seed * 100 + i, "ticks": nt})
        # 0.01 / 0.03: the channel holds less than ONE frame (the very first frame of a tick already has to be refused)
        for i, f in enumerate((FACTORS + [0.01, 0.03]) if tier == "thorough" else [0.01, 0.03, 0.6, 1.0, 2.5]):
            specs.append({"name": f"wireless-{f}", "topo": "wireless", "factor": f, "seed": seed * 100 + i, "ticks": nt})
        return specs

    def run_case(self, spec):
        cov, out = Cov(), []
        if spec["topo"] == "wireless":
            return self.run_wireless(spec, cov, out)
        # 1. unconstrained run measures the load L of this traffic; 2. constrained runs with bandwidth = k * L
        base_cfg = scenario(spec["topo"], None)
        ctx0 = {"topo": spec["topo"], "kinds": spec["kinds"], "seed": spec["seed"], "bandwidth": "default"}
        mon0, loads = run_ticks(base_cfg, spec["kinds"], spec["seed"], cov, out, ctx0, spec["ticks"])
        L = max(loads) if loads else 0.0
        nontrivial = False
        maxdepth = mon0.max_depth
        tuples = []
        if L > 0:
            for k in FACTORS:
                bw = L * k
                cfg = scenario(spec["topo"], bw)
                ctx = {"topo": spec["topo"], "kinds": spec["kinds"], "seed": spec["seed"], "bandwidth": bw, "k": k, "unconstrained_load": L}
                mon, _ = run_ticks(cfg, spec["kinds"], spec["seed"], cov, out, ctx, spec["ticks"])
                maxdepth = max(maxdepth, mon.max_depth)
                cov.mx("load_over_bandwidth_ratio", round(mon.max_ratio, 6))
                if mon.max_depth >= 2 and (mon.drops > 0 or mon.max_ratio > 0.5):
                    nontrivial = True
                    tuples.append([spec["topo"], "+".join(spec["kinds"]), k])
                if out:
                    break
        cov.mx("nesting_depth", maxdepth)
        cov.d["judged_tuples"] = tuples
        return {"violations": out, "cov": cov.d, "nontrivial": nontrivial, "digest": digest([spec["topo"], spec["kinds"]]),
                "sample": {"case": spec, "unconstrained_load_mbit": L, "max_nesting_depth": maxdepth,
                           "events_tail": [str(e) for e in mon0.events[-6:]]}}

    def run_wireless(self, spec, cov, out):
        cfg = corpus.test_asset("wireless_wan_network_config.yaml")
        cfg["io_settings"] = dict(corpus.IO_OFF)

        def run(cfg, ctx):
            probes.uninstall_all()
            mon = LinkMonitor(cov, out, ctx)
            mon.install()
            try:
                game = corpus.build_game(cfg)
                net = game.simulation.network
                hosts = [n for n in net.nodes.values() if n.__class__.__name__ in ("Computer", "Server")]
                peak = 0.0
                wrs = [n for n in net.nodes.values() if n.__class__.__name__ == "WirelessRouter"]
                rnd = random.Random(spec["seed"])
                down = {}  # router -> (how, tick at which it is brought back)
                for t in range(max(spec["ticks"], 16) if ctx.get("disrupt") else spec["ticks"]):
                    game.simulation.pre_timestep(t)
                    for rn, (how, back) in list(down.items()):
                        if t >= back:
                            game.simulation.apply_request(["network", "node", rn] + (["network_interface", 1, "enable"] if how == "ap" else ["startup"]))
                            del down[rn]
                            cov.hit("wireless_disruptions", f"{how}-back")
                    for h in hosts:
                        for g in hosts:
                            if h is not g:
                                h.ping(str(g.network_interface[1].ip_address), pings=2)
                                mon.quiescent(net, f"ping {h.config.hostname}->{g.config.hostname}")
                    if ctx.get("disrupt") and t % 3 == 1:
                        # after this tick's traffic: access points disabled / routers powered off - one of them, or ALL of them, across the tick boundary
                        how = rnd.choice(["ap", "power"])
                        for r in (wrs if rnd.random() < 0.6 else wrs[:1]):
                            if r.config.hostname not in down and r.operating_state.name == "ON":
                                game.simulation.apply_request(["network", "node", r.config.hostname] + (["network_interface", 1, "disable"] if how == "ap" else ["shutdown"]))
                                down[r.config.hostname] = (how, t + rnd.choice([1, 2, 5]))
                                cov.hit("wireless_disruptions", how)
                        if len(down) == len(wrs):
                            cov.inc("ticks_ending_with_every_access_point_down")
                        mon.quiescent(net, "disruption")
                    game.simulation.apply_timestep(t + 1)
                    peak = max([peak] + list(net.airspace.bandwidth_load.values()))
                return mon, peak
            finally:
                probes.uninstall_all()

        mon0, peak = run(copy.deepcopy(cfg), {"topo": "wireless", "capacity": "default"})
        nontrivial = False
        if peak > 0:
            c2 = copy.deepcopy(cfg)
            cap = peak * spec["factor"]
            c2["simulation"]["network"].setdefault("airspace", {})["frequency_max_capacity_mbps"] = {"WIFI_2_4": cap, "WIFI_5": cap}
            mon, _ = run(c2, {"topo": "wireless", "capacity": cap, "k": spec["factor"], "unconstrained_peak": peak})
            run(copy.deepcopy(c2 if spec["seed"] % 2 else cfg), {"topo": "wireless", "capacity": cap if spec["seed"] % 2 else "default", "disrupt": True})
            cov.mx("air_load_over_capacity_ratio", round(getattr(mon, "max_ratio_air", 0.0), 6))
            nontrivial = cov.d.get("air_transmits", 0) > 0
        return {"violations": out, "cov": cov.d, "nontrivial": nontrivial, "digest": digest(spec),
                "sample": {"case": spec, "unconstrained_air_peak_mbit": peak}}


CHECK = Check()
