"""C16 - logins need valid credentials; remote commands need a live session.

Monitor: a reference session model (pv/models/session_ref.py: accounts, remote sessions with two inactivity clocks,
limit, time-out) is driven by the same op stream as three real nodes (client_1, client_2, server on one switch).
Observation points: tap on the server's UserSessionManager._login (server-side truth of every login attempt), taps on
RemoteTerminalConnection.execute / Terminal._disconnect (which session a request-path command / logoff travelled on),
tap on UserSessionManager._timeout_session (when time-outs really fire), and - the deciding witness for commands - a
uniquely named folder per remote command on the server's file system, so an effect on the target identifies the command
and the session that caused it.

Oracle (necessary conditions only, as in the statement):
  * a login answered success (connection object / status success / session id on the server) although the model says
    wrong password, unknown user, disabled user, node off or (remote) at the session limit;
  * a marker folder present although the session its command was sent on is not live in the model (ended by logout,
    time-out or password change of its user);
  * zero enabled administrators on the server;
  * a time-out that fires within timeout-1 ticks of a command the server executed on that session.
Everything the statement is silent about (terminal stopped, power cycles, stale request answers, local sessions after a
password change, reported session lists) is counted as a diagnostic in cov, never judged.
"""
from __future__ import annotations

import itertools
import random

from pv import corpus, probes
from pv.harness import Cov, digest, viol
from pv.models.session_ref import YES, SessionRef

SERVER = "server"
SERVER_IP = "192.168.1.20"
CLIENTS = {"client_1": "192.168.1.11", "client_2": "192.168.1.12"}
USERS_B = [{"username": "u1", "password": "pw-u1", "is_admin": False}, {"username": "adm2", "password": "pw-adm2", "is_admin": True}]

_am = None
_CUR = None  # the Driver the taps report to


def form(action, **opts):
    global _am
    from primaite.game.agent.actions import ActionManager

    if _am is None:
        _am = ActionManager()
    return _am.form_request(action, opts)


def scenario(pre_users, srv_dur=(0, 0)):
    n = corpus.Net()
    z = dict(start_up_duration=0, shut_down_duration=0)
    n.switch("sw1", 4, **z)
    for c, ip in CLIENTS.items():
        n.host(c, ip, **z)
    kw = dict(start_up_duration=srv_dur[0], shut_down_duration=srv_dur[1])  # the target may take ticks to start / shut down
    if pre_users:
        kw["users"] = [dict(u) for u in pre_users]
    n.host(SERVER, SERVER_IP, kind="server", **kw)
    for h in list(CLIENTS) + [SERVER]:
        n.to_switch("sw1", h)
    return n.scenario()


# ------------------------------------------------------------------------------------------------ alphabets
def alphabet(S):
    """22-op alphabet around a subject account S (exhaustive families)."""
    other = "adm2"
    return [
        ["rlogin", "client_1", S, "right", "api"],  # 0
        ["rlogin", "client_2", S, "right", "action"],  # 1
        ["rlogin", "client_1", S, "wrong", "action"],  # 2
        ["rlogin", "client_2", S, "orig", "api"],  # 3   original password: right until the first change
        ["cmd", 0],  # 4
        ["cmd", 1],  # 5
        ["cmdreq", "client_1"],  # 6
        ["logoff", 0, "api"],  # 7
        ["logoffreq", "client_2"],  # 8
        ["chpw", S, "right"],  # 9
        ["chpw", S, "wrong"],  # 10
        ["disable", S],  # 11
        ["tick", 1],  # 12
        ["tick", "T+2"],  # 13
        ["srvpow"],  # 14
        ["srvterm"],  # 15
        ["cpow", "client_1"],  # 16
        ["llogin", S, "right", "api"],  # 17
        ["lcmd", S, "right"],  # 18
        ["lcmd", S, "wrong"],  # 19
        ["adduser", other, True],  # 20
        ["disable", "admin" if S != "admin" else other],  # 21
    ]


REDUCED = [0, 1, 4, 5, 6, 7, 9, 11, 12, 13, 14, 3]
REDUCED9 = [0, 1, 4, 5, 6, 7, 9, 13, 14]
WIDE = [0, 1, 2, 3, 4, 5, 6, 7, 8, 9, 11, 12, 13, 14, 15, 16, 18, 21]  # 18 ops
LIMIT6 = [0, 1, 7, 8, 13, 4]  # the limit boundary with interleaved logins / logoffs / time-outs
PREAMBLES = {"none": [], "two": [0, 1], "three": [0, 1, 0]}


def random_alphabet():
    ops = []
    users = ["admin", "u1", "adm2", "u3"]
    for u in users:
        for c in CLIENTS:
            ops += [["rlogin", c, u, "right", "api"], ["rlogin", c, u, "right", "action"]] * 2
            ops += [["rlogin", c, u, "wrong", "action"], ["rlogin", c, u, "orig", "api"], ["rlogin", c, u, "empty", "api"]]
        ops += [["rlogin", "client_1", u, "right", "usm"], ["rlogin", "client_1", u, "wrong", "usm"]]
        ops += [["chpw", u, "right"]] * 3 + [["chpw", u, "wrong"], ["disable", u]]
        ops += [["llogin", u, "right", "api"], ["llogin", u, "wrong", "api"], ["llogin", u, "right", "usm"], ["llogin", u, "orig", "usm"],
                ["lcmd", u, "right"], ["lcmd", u, "wrong"], ["lcmd", u, "orig"]]
    ops += [["rlogin", "client_2", "ghost", "right", "action"], ["rlogin", "client_1", "ghost", "empty", "api"],
            ["llogin", "ghost", "right", "api"], ["lcmd", "ghost", "right"]]
    ops += [["adduser", "u3", False]] * 2 + [["adduser", "adm4", True], ["adduser", "u1", False], ["disable", "adm4"]]
    for k in range(6):
        ops += [["cmd", k]] * (6 if k < 4 else 3)
        ops += [["logoff", k, "api"]] * 2 + [["logoff", k, "usm"]]
    for c in CLIENTS:
        ops += [["cmdreq", c]] * 5 + [["logoffreq", c]] * 3 + [["cpow", c]] * 2 + [["cterm", c]]
    ops += [["tick", 1]] * 14 + [["tick", "T-1"]] * 3 + [["tick", "T"]] * 3 + [["tick", "T+2"]] * 4
    ops += [["srvpow"]] * 4 + [["srvterm"]] * 3 + [["srvusm"]] * 3
    return ops


# ------------------------------------------------------------------------------------------------ taps
def install_taps():
    from primaite.simulator.network.hardware.base import UserSessionManager
    from primaite.simulator.system.services.terminal.terminal import RemoteTerminalConnection, Terminal

    def post_login(usm, tok, res, exc, *a, **k):
        d = _CUR
        if d is None or usm is not d.usm:
            return
        d.obs_logins.append({"username": k.get("username", a[0] if a else None),
                             "local": k.get("local", a[2] if len(a) > 2 else True), "sid": res if exc is None else None})

    probes.wrap(UserSessionManager, "_login", None, post_login)

    def pre_exec(conn, *a, **k):
        d = _CUR
        if d is not None:
            d.obs_exec.append(conn.connection_uuid)

    probes.wrap(RemoteTerminalConnection, "execute", pre_exec, None)

    def pre_disc(term, *a, **k):
        d = _CUR
        if d is not None:
            d.obs_disc.append((term, k.get("connection_uuid", a[0] if a else None)))

    probes.wrap(Terminal, "_disconnect", pre_disc, None)

    def pre_timeout(usm, *a, **k):
        d = _CUR
        if d is not None and usm is d.usm:
            s = k.get("session", a[0] if a else None)
            d.obs_timeouts.append((getattr(s, "uuid", None), bool(getattr(s, "local", False))))

    probes.wrap(UserSessionManager, "_timeout_session", pre_timeout, None)

    def post_srv_exec(term, tok, res, exc, *a, **k):
        d = _CUR
        if d is not None and term is d.srv_term:
            d.obs_srv_exec.append(k.get("command", a[0] if a else None))

    probes.wrap(Terminal, "execute", None, post_srv_exec)


# ------------------------------------------------------------------------------------------------ driver
class Driver:
    def __init__(self, cov, out, ctx, limit, timeout, pre_users, subject=None, srv_dur=(0, 0)):
        global _CUR
        self.cov, self.out, self.ctx = cov, out, ctx
        self.limit, self.T, self.subject = limit, timeout, subject
        self.game = corpus.build_game(scenario(pre_users, srv_dur))
        self.sim = self.game.simulation
        net = self.sim.network
        self.nodes = {h: net.get_node_by_hostname(h) for h in list(CLIENTS) + [SERVER]}
        self.server = self.nodes[SERVER]
        self.usm = self.server.software_manager.software["user-session-manager"]
        self.um = self.server.software_manager.software["user-manager"]
        self.srv_term = self.server.software_manager.software["terminal"]
        # the statement's parameters, made reachable (no config route exists for them)
        self.usm.remote_session_timeout_steps = timeout
        self.usm.max_remote_sessions = limit
        self.model = SessionRef(limit, timeout, pre_users)
        self.t = 0
        self.handles = {}  # ordinal -> client-side connection object
        self.uuid2ord = {}
        self.n_marker = 0
        self.n_pw = 0
        self.forbidden = []  # markers that must never appear
        self.log = []
        self.trace = []
        self.crashed = False
        self.n_login_ok = 0
        self.n_neg = 0
        self.obs_logins, self.obs_exec, self.obs_disc, self.obs_timeouts, self.obs_srv_exec = [], [], [], [], []
        _CUR = self
        self.sim.pre_timestep(0)
        for c in CLIENTS:  # ARP warm-up so that no first frame is spent on address resolution
            self.nodes[c].ping(SERVER_IP, pings=1)

    # ---- helpers
    def v(self, mech, msg):
        if not any(o["mech"] == mech for o in self.out):
            self.out.append(viol(mech, msg, {"ctx": self.ctx, "ops": list(self.log)}))
        self.stop = True

    stop = False

    def node_on(self, name):
        return self.nodes[name].operating_state.name == "ON"

    def target_listening(self):
        """could the server have been told of a client-side logoff? (powered on and its SSH service running)"""
        return self.node_on(SERVER) and self.srv_term.operating_state.name == "RUNNING"

    def has(self, folder):
        return any(f.name == folder for f in self.server.file_system.folders.values())

    def marker(self, tag):
        self.n_marker += 1
        return f"mk-{tag}-{self.n_marker}"

    def clear_obs(self):
        for l in (self.obs_logins, self.obs_exec, self.obs_disc, self.obs_timeouts, self.obs_srv_exec):
            del l[:]

    def pw(self, user, kind):
        u = self.model.users.get(user)
        right = u.password if u is not None else "pw-" + user
        if kind == "right":
            return right
        if kind == "orig":
            return u.original_password if u is not None else "pw-" + user
        if kind == "empty":
            return ""
        return "bad-" + right

    def apply(self, req):
        resp = self.sim.apply_request(req)
        return getattr(resp, "status", None)

    # ---- judges
    def judge_login(self, remote, user, pwd, srv_on, client_ok, client, via):
        kind = "remote" if remote else "local"
        sids = [o["sid"] for o in self.obs_logins if o["sid"] is not None and bool(o["local"]) != remote]
        success = bool(client_ok) or bool(sids)
        verdict = (self.model.remote_login_verdict if remote else self.model.local_login_verdict)(user, pwd, srv_on)
        self.cov.hit("login_verdicts", f"{kind}|{via}|{verdict}|{'granted' if success else 'refused'}")
        self.cov.inc("logins_judged")
        self.cov.hit("logins_judged_by_server_power_state", self.nodes[SERVER].operating_state.name)
        outcome = "granted" if success else "refused"
        if verdict.startswith("no:"):
            self.cov.inc("logins_judged_negative")
            self.n_neg += 1
            if verdict == "no:at-limit":
                self.cov.inc("logins_at_limit")
            if success:
                reason = verdict[3:]
                self.v(f"{kind}-login-succeeds/{reason}",
                       f"{kind} login of '{user}' via {via} was granted (client answer ok={bool(client_ok)}, server session created="
                       f"{bool(sids)}) although the reference model says {reason}: open sessions certainly counting towards the limit="
                       f"{len(self.model.certainly_open())}/{self.limit}, server on={srv_on}, account="
                       f"{vars(self.model.users[user]) if user in self.model.users else None}")
                return outcome
        elif verdict == YES:
            if success:
                self.cov.inc("logins_granted_with_valid_credentials")
            else:
                self.cov.hit("diag", f"valid-{kind}-login-refused|srv_on={srv_on}")
        if client_ok and not sids:
            self.cov.hit("diag", f"{kind}-login-answered-ok-without-server-session")
        if remote:
            for sid in sids:
                k = self.model.on_remote_login_success(user, client)
                self.uuid2ord[sid] = k
                self.n_login_ok += 1
                self.cov.inc("remote_logins_ok")
                if len(self.model.possibly_open()) >= self.limit:
                    self.cov.inc("logins_filling_last_slot")
                h = None
                if client in self.nodes:
                    h = self.nodes[client].software_manager.software["terminal"]._connections.get(sid)
                if h is not None:
                    self.handles[k] = h
                else:
                    self.cov.hit("diag", f"server-session-without-client-handle|{via}")
        elif sids:
            self.model.on_local_login_success(user)
            self.cov.inc("local_logins_ok")
        return outcome

    def judge_cmd(self, k, marker, handle_active, path):
        effect = self.has(marker)
        s = self.model.sessions[k]
        verdict = self.model.cmd_verdict(k, handle_active)
        self.cov.hit("cmd_verdicts", f"{path}|{verdict}|{'effect' if effect else 'no-effect'}")
        self.cov.inc("cmds_judged")
        if verdict.startswith("no:"):
            cause = verdict[3:]
            self.cov.inc("cmds_on_dead_sessions")
            self.cov.hit("cmds_on_dead_by_cause", f"{cause}/{s.ended_detail or '-'}/{'handle-active' if handle_active else 'handle-closed'}")
            self.n_neg += 1
            self.forbidden.append(marker)
            if effect:
                mech = f"cmd-executed-after-{cause}" + (f"/{s.ended_detail}" if s.ended_detail and cause != "logout" else "") + \
                       ("/handle-active" if handle_active else "/handle-closed")
                self.v(mech, f"command {marker} sent ({path}) on remote session #{k} of '{s.user}' from {s.client} was executed on the "
                             f"server although the session is not live: ended by {cause} ({s.ended_detail}); client handle active="
                             f"{handle_active}; quiet ticks={s.quiet_on}, time-out={self.T}")
        elif verdict == YES:
            self.cov.inc("cmds_on_live_sessions")
            if effect:
                self.cov.inc("cmd_effects_on_live")
            else:
                self.cov.hit("diag", f"live-cmd-no-effect|{path}|srv_on={self.node_on(SERVER)}|term={self.srv_term.operating_state.name}"
                                     f"|client_on={self.node_on(s.client) if s.client in self.nodes else '-'}|handle={handle_active}")
        else:
            self.cov.hit("cmds_unjudged", verdict)
        self.model.on_cmd_sent(k, effect)
        return verdict + ("|effect" if effect else "|none")

    def after_op(self, kind):
        # last enabled admin
        self.cov.inc("admin_invariant_evals")
        en = [u.username for u in self.um.users.values() if u.is_admin and not u.disabled]
        if not en:
            self.v(f"last-enabled-admin-disabled@{kind}", f"no enabled administrator is left on the server after {self.log[-1]}: "
                   f"{[(u.username, u.is_admin, u.disabled) for u in self.um.users.values()]}")
        # diagnostics: reported state against the model (not judged)
        for sid in self.usm.remote_sessions:
            k = self.uuid2ord.get(sid)
            if k is None:
                self.cov.hit("diag", "server-session-unknown-to-model")
            elif self.model.sessions[k].ended is not None:
                self.cov.hit("diag", f"reported-active-but-ended:{self.model.sessions[k].ended}")
        for name, u in self.model.users.items():
            ru = self.um.users.get(name)
            if ru is None or (not u.uncertain and (ru.password != u.password or ru.disabled != u.disabled)):
                self.cov.hit("diag", "account-state-differs-from-model")
        lu = self.usm.local_session.user.username if self.usm.local_session else None
        if lu != self.model.local_user:
            self.cov.hit("diag", f"local-user-differs:{'model-none' if self.model.local_user is None else 'model-some'}")

    # ---- ops
    def step(self, op):
        kind = op[0]
        self.log.append(list(op))
        self.clear_obs()
        cls = self.model.state_class(self.subject)
        self.cov.hit("op_x_state", f"{kind}{'/' + str(op[-1]) if kind in ('rlogin', 'llogin', 'logoff', 'chpw', 'lcmd') else ''}|{cls}"
                                   f"|srv={'on' if self.node_on(SERVER) else 'off'}")
        try:
            outcome = getattr(self, "op_" + kind)(*op[1:])
        except Exception as e:  # a raising handler is not C16's business: count it, stop the sequence (state unknown)
            import traceback

            fr = traceback.extract_tb(e.__traceback__)[-1]
            site = f"{kind}:{type(e).__name__}@{fr.filename.rsplit('/', 1)[-1]}:{fr.name}"
            self.cov.hit("raised", site)
            self.cov.add("raised_examples", {"site": site, "ops": [list(map(str, o)) for o in self.log]} if site not in self.cov.d.get("raised", {}) or
                         self.cov.d["raised"][site] <= 1 else {"site": site})
            self.log[-1].append(f"raised {type(e).__name__}: {e}"[:160])
            if fr.filename.rsplit("/", 1)[-1] in ("base.py", "terminal.py", "ssh.py"):
                # the anchored session machinery itself (login / time-out / logout / command dispatch) aborted half-way: whatever it was
                # ending or refusing was not brought to completion (e.g. the remaining time-outs of the same tick never run)
                self.v(f"session-machinery-raises/{site}", f"{kind} raised {type(e).__name__}: {str(e)[:120]} inside the session machinery ({site})")
            self.crashed = True
            self.stop = True
            return
        self.log[-1].append(outcome)
        self.trace.append([kind, cls, str(outcome)])
        self.after_op(kind)

    def op_rlogin(self, client, user, pwkind, via):
        pwd = self.pw(user, pwkind)
        srv_on = self.node_on(SERVER)
        if via == "api":
            from ipaddress import IPv4Address

            term = self.nodes[client].software_manager.software["terminal"]
            conn = term.login(username=user, password=pwd, ip_address=IPv4Address(SERVER_IP))
            ok = conn is not None
        elif via == "action":
            ok = self.apply(form("node-session-remote-login", node_name=client, username=user, password=pwd, remote_ip=SERVER_IP)) == "success"
        else:  # the server's own user-session-manager request
            ok = self.apply(["network", "node", SERVER, "service", "user-session-manager", "remote_login", user, pwd, CLIENTS[client]]) == "success"
            client = "usm:" + client
        return self.judge_login(True, user, pwd, srv_on, ok, client, via)

    def op_llogin(self, user, pwkind, via):
        pwd = self.pw(user, pwkind)
        srv_on = self.node_on(SERVER)
        if via == "api":
            ok = self.srv_term.login(username=user, password=pwd) is not None
        else:
            ok = self.usm.local_login(username=user, password=pwd) is not None
        return self.judge_login(False, user, pwd, srv_on, ok, SERVER, via)

    def op_lcmd(self, user, pwkind):
        pwd = self.pw(user, pwkind)
        srv_on = self.node_on(SERVER)
        m = self.marker("L")
        st = self.apply(form("node-send-local-command", node_name=SERVER, username=user, password=pwd, command=["file_system", "create", "folder", m]))
        effect = self.has(m)
        verdict = self.model.local_login_verdict(user, pwd, srv_on)
        self.cov.inc("local_cmds")
        if verdict.startswith("no:"):
            self.forbidden.append(m)
            self.cov.inc("local_cmds_with_invalid_credentials")
            if effect:
                self.n_neg += 1
                self.v(f"local-cmd-executed/{verdict[3:]}", f"node-send-local-command as '{user}' created {m} on the server although the "
                       f"reference model says {verdict[3:]}")
                return "effect"
        elif verdict == YES and effect:
            self.cov.inc("local_cmd_effects_with_valid_credentials")
        out = self.judge_login(False, user, pwd, srv_on, False, SERVER, "send_local_command")
        return f"{st}|{out}|{'effect' if effect else 'none'}"

    def op_cmd(self, k):
        h = self.handles.get(k)
        if h is None:
            self.cov.inc("skipped_ops")
            return "skip"
        active = bool(h.is_active)
        m = self.marker(f"s{k}")
        h.execute(["file_system", "create", "folder", m])
        res = self.judge_cmd(k, m, active, "handle")
        if not self.stop and not active:
            # the client closed its handle: replay the SSH message on the same connection id (server-side enforcement)
            from primaite.simulator.system.services.terminal.terminal import RemoteTerminalConnection

            clone = RemoteTerminalConnection(parent_terminal=h.parent_terminal, ssh_session_id=h.ssh_session_id, connection_uuid=h.connection_uuid,
                                             connection_request_id=h.connection_request_id, time=h.time, ip_address=h.ip_address)
            m2 = self.marker(f"s{k}r")
            clone.execute(["file_system", "create", "folder", m2])
            self.cov.inc("replayed_cmds")
            res += ";" + self.judge_cmd(k, m2, False, "replay")
        return res

    def op_cmdreq(self, client):
        m = self.marker("q")
        st = self.apply(form("node-send-remote-command", node_name=client, remote_ip=SERVER_IP, command=["file_system", "create", "folder", m]))
        used = [self.uuid2ord.get(u) for u in self.obs_exec]
        if not used:
            self.cov.inc("request_cmds_without_session")
            self.forbidden.append(m)
            if self.has(m):
                self.v("cmd-executed-without-session", f"node-send-remote-command from {client} created {m} on the server although the client "
                       f"terminal held no connection to send it on")
            return f"{st}|no-session"
        k = used[0]
        if k is None:
            self.cov.hit("diag", "request-cmd-on-connection-unknown-to-model")
            return f"{st}|unknown-session"
        res = self.judge_cmd(k, m, True, "request")
        if st == "success" and not self.has(m):
            self.cov.hit("diag", "request-cmd-answered-success-without-effect")
        return f"{st}|#{k}|{res}"

    def _logoff_result(self, k, ok, heard):
        if k is None:
            return
        if ok:
            self.cov.hit("logoffs", f"{'heard' if heard else 'not-heard'}|{'live' if self.model.sessions[k].ended is None else 'already-ended'}")
            self.model.on_logoff(k, heard)
        else:
            self.model.on_logoff_failed(k)

    def op_logoff(self, k, via):
        if k >= len(self.model.sessions):
            self.cov.inc("skipped_ops")
            return "skip"
        s = self.model.sessions[k]
        if via == "api":
            h = self.handles.get(k)
            if h is None:
                self.cov.inc("skipped_ops")
                return "skip"
            heard = self.target_listening() and (s.client not in self.nodes or self.node_on(s.client))
            was_active = bool(h.is_active)
            ok = bool(h.disconnect())
            if was_active or ok:
                self._logoff_result(k, ok, heard)
            return f"{'ok' if ok else 'refused'}|handle_active={was_active}"
        # server-side request with the session id (visible to an agent in active_remote_sessions)
        sid = next(u for u, o in self.uuid2ord.items() if o == k)
        st = self.apply(["network", "node", SERVER, "service", "user-session-manager", "remote_logout", sid])
        self._logoff_result(k, st == "success", True)
        return st

    def op_logoffreq(self, client):
        heard_base = self.target_listening() and self.node_on(client)
        st = self.apply(form("node-session-remote-logoff", node_name=client, remote_ip=SERVER_IP))
        cterm = self.nodes[client].software_manager.software["terminal"]
        first = next((u for t, u in self.obs_disc if t is cterm), None)
        k = self.uuid2ord.get(first)
        if first is None:
            return f"{st}|no-connection"
        self._logoff_result(k, st == "success", heard_base)
        return f"{st}|#{k}"

    def op_chpw(self, user, oldkind):
        old = self.pw(user, oldkind)
        self.n_pw += 1
        new = f"{user}-n{self.n_pw}"
        open_before = [s.ordinal for s in self.model.possibly_open() if s.user == user]
        # classification only (never judgement): position of each session of the user in the server's session table
        table = [self.uuid2ord.get(sid) for sid, rs in self.usm.remote_sessions.items() if rs.user.username == user]
        st = self.apply(form("node-account-change-password", node_name=SERVER, username=user, current_password=old, new_password=new))
        r = self.model.on_change_password(user, old, new, st == "success")
        if r["diag"]:
            self.cov.hit("diag", r["diag"])
        for k in r["ended"]:
            self.model.sessions[k].ended_detail = ("first-session-of-user" if table and table[0] == k else
                                                   "later-session-of-user" if k in table else "session-not-in-server-table")
        if st == "success":
            self.cov.inc("password_changes")
            self.cov.hit("password_change_x_open_sessions_of_user", str(min(len(open_before), 3)))
            if len(open_before) >= 2:
                self.cov.inc("password_changes_with_several_sessions_of_user")
        return f"{st}|ended={r['ended']}"

    def op_disable(self, user):
        verdict = self.model.disable_verdict(user)
        st = self.apply(form("node-account-disable-user", node_name=SERVER, username=user))
        self.cov.hit("disable_verdicts", f"{verdict}|{st}")
        if verdict != YES:
            self.cov.inc("disable_last_admin_attempts")
            if st == "success":
                self.v("last-enabled-admin-disabled@disable", f"node-account-disable-user '{user}' answered success although '{user}' is the "
                       f"only enabled administrator")
        self.model.on_disable_user(user, st == "success")
        return st

    def op_adduser(self, user, admin):
        pwd = "pw-" + user
        st = self.apply(form("node-account-add-user", node_name=SERVER, username=user, password=pwd, is_admin=admin))
        d = self.model.on_add_user(user, pwd, admin, st == "success")
        if d:
            self.cov.hit("diag", d)
        return st

    def op_tick(self, n):
        n = {"T": self.T, "T-1": max(1, self.T - 1), "T+2": self.T + 2}.get(n, n)
        fired = []
        for _ in range(n):
            srv_on = self.node_on(SERVER)
            self.t += 1
            del self.obs_timeouts[:]
            self.sim.apply_timestep(self.t)
            self.sim.pre_timestep(self.t)
            self.model.on_tick(srv_on)
            self.cov.inc("ticks")
            for sid, local in self.obs_timeouts:
                if local:
                    continue
                k = self.uuid2ord.get(sid)
                if k is None:
                    continue
                s = self.model.sessions[k]
                fired.append(k)
                if s.ended not in (None, "timeout"):
                    self.cov.hit("diag", f"timeout-fired-on-session-ended-by:{s.ended}")
                    continue
                self.cov.inc("timeouts_fired")
                self.cov.hit("timeout_fired_at_quiet_ticks(since-effect/since-sent)", f"{s.quiet_all}/{s.quiet_on}|T={self.T}")
                if s.ended is None and s.quiet_all <= self.T - 1:
                    self.v("timeout-fires-early", f"remote session #{k} was timed out {s.quiet_all} tick(s) after its login / the last command the "
                           f"server executed on it (remote_session_timeout_steps={self.T})")
                    return f"fired={fired}"
        return f"fired={fired}"

    def _power(self, node):
        on = self.node_on(node)
        st = self.apply(form("node-shutdown" if on else "node-startup", node_name=node))
        return f"{'shutdown' if on else 'startup'}:{st}"

    def op_srvpow(self):
        r = self._power(SERVER)
        self.model.on_disturb()
        return r

    def op_cpow(self, client):
        r = self._power(client)
        self.model.on_disturb(client)
        return r

    def _term(self, node):
        term = self.nodes[node].software_manager.software["terminal"]
        running = term.operating_state.name == "RUNNING"
        st = self.apply(form("node-service-stop" if running else "node-service-start", node_name=node, service_name="terminal"))
        return f"{'stop' if running else 'start'}:{st}"

    def op_srvusm(self):
        """stop / start the server's user-session-manager service (a service power event on the target end)"""
        usm = self.nodes[SERVER].software_manager.software["user-session-manager"]
        running = usm.operating_state.name == "RUNNING"
        st = self.apply(form("node-service-stop" if running else "node-service-start", node_name=SERVER, service_name="user-session-manager"))
        self.model.on_disturb()
        return f"{'stop' if running else 'start'}:{st}"

    def op_srvterm(self):
        r = self._term(SERVER)
        self.model.on_disturb()
        return r

    def op_cterm(self, client):
        r = self._term(client)
        self.model.on_disturb(client)
        return r

    def finish(self):
        if self.stop and self.out:
            return
        late = [m for m in self.forbidden if self.has(m)]
        self.cov.inc("forbidden_markers_checked", len(self.forbidden))
        if late:
            self.v("forbidden-marker-appeared-later", f"marker(s) {late[:3]} of commands that must not execute are present at the end of the sequence")


def run_seq(ops, cov, out, ctx, limit, timeout, pre_users, subject=None, srv_dur=(0, 0)):
    global _CUR
    d = Driver(cov, out, ctx, limit, timeout, pre_users, subject, srv_dur)
    try:
        for op in ops:
            d.step(op)
            if d.stop:
                break
        d.finish()
    finally:
        _CUR = None
    return d


# ------------------------------------------------------------------------------------------------ check
class Check:
    pid = "C16"
    level = "exploration"
    rule = ("case = family x chunk. Exhaustive families: subject account 'admin' (default account, limit 3, time-out 3) and 'u1' (non-admin "
            "configured in the scenario next to a second admin, limit 2, time-out 2) x preamble in {none; two remote logins of the subject, "
            "one from each client; three} x EVERY op sequence of length DEPTH (quick: 3 after preamble none/two, 2 after three; thorough: 3-4) "
            "over a 22-op alphabet (18 of them for some families) {remote login right/wrong/original password from client_1/client_2 via "
            "Terminal.login and the node-session-remote-login action; command on session #0/#1 through its connection object (+ replayed "
            "on the closed handle), node-send-remote-command; logoff by connection object and node-session-remote-logoff; "
            "node-account-change-password right/wrong old; node-account-disable-user subject/admin; node-account-add-user; tick x1, "
            "tick x(T+2); server power toggle, server terminal stop/start, client power toggle; local login; node-send-local-command "
            "right/wrong password}, plus deeper sequences (quick: 4 over 9 ops after two logins, 5 over the 6 limit-boundary ops {login x2, "
            "logoff x2, tick x(T+2), command}; thorough: 5 and 6); random sequences of length 40 over a ~330-entry "
            "weighted alphabet (4 accounts + unknown user, 6 session ordinals, user-session-manager remote_login/remote_logout requests, "
            "client terminal stop/start, ticks T-1/T/T+2). Every remote command creates a uniquely named folder. Non-trivial sequence: >=1 "
            "remote login granted and >=1 negatively judged event (login the model forbids, command on a session the model says is not "
            "live); distinct by the abstract trace (op kind, model state class, outcome).")
    assumptions = [
        "'live' = issued by a successful login and not since ended by logout, time-out or a password change of its user; node power cycles, "
        "terminal stop/start and disabling the user do not end a session in the model (they only exclude it from the sessions that certainly "
        "count towards the limit)",
        "time-out timing is not documented to the tick: a session must be dead once timeout+2 ticks (counted only while the server is on) "
        "passed since the last command SENT on it; it may be dead or alive from timeout to timeout+1; it certainly counts towards the limit "
        "only within timeout-1 ticks of its login / last EXECUTED command; a time-out firing inside that span is judged early",
        "a logoff issued while server or client was powered off closes only the client's handle: a packet replayed on that closed handle is "
        "not judged (the statement does not say how the target learns of such a logoff); commands through the handle itself are judged",
        "only necessary conditions are judged (statement: 'succeeds only with', 'executed only while'); refused valid logins and ineffective "
        "commands on live sessions are diagnostics",
        "remote_session_timeout_steps and max_remote_sessions are set directly on the server's UserSessionManager object (no config route)",
        "server power state is read from the real node (its FSM is C12's business); all start-up/shut-down durations are 0",
    ]
    min_monitor = {"cmds_on_dead_sessions": 2000, "cmd_effects_on_live": 3000, "logins_judged_negative": 3000, "logins_at_limit": 300,
                   "remote_logins_ok": 10000, "admin_invariant_evals": 50000, "timeouts_fired": 500, "disable_last_admin_attempts": 200,
                   "password_changes_with_several_sessions_of_user": 300, "replayed_cmds": 500, "local_cmds_with_invalid_credentials": 300}
    case_timeout = {"quick": 1500, "thorough": 5400}

    FAMILIES = [("admin", [], 3, 3), ("u1", USERS_B, 2, 2)]

    def cases(self, tier, seed):
        specs = []
        FULL = list(range(22))
        fams = {S: dict(subject=S, pre_users=pre, limit=lim, timeout=T) for (S, pre, lim, T) in self.FAMILIES}

        def exh(S, pname, alpha, aname, depth, nfixed):
            for fixed in itertools.product(alpha, repeat=nfixed):
                specs.append({"name": f"exh{depth}{aname}-{S}-{pname}-" + "-".join(map(str, fixed)), "kind": "exh", "depth": depth,
                              "fixed": list(fixed), "alpha": alpha, "preamble": pname, "size": len(alpha) ** (depth - nfixed), **fams[S]})

        if tier == "quick":
            exh("admin", "none", FULL, "", 3, 1)
            exh("admin", "two", FULL, "", 3, 1)
            exh("u1", "none", WIDE, "w", 3, 1)
            exh("u1", "two", WIDE, "w", 3, 1)
            exh("admin", "three", FULL, "", 2, 0)
            exh("u1", "three", FULL, "", 2, 0)
            exh("admin", "two", REDUCED9, "r", 4, 1)
            exh("u1", "none", LIMIT6, "l", 5, 1)
            nrand, per = 32, 40
        else:
            exh("admin", "none", WIDE, "w", 4, 2)
            exh("admin", "two", FULL, "", 3, 1)
            exh("admin", "two", REDUCED9, "r", 5, 2)
            exh("u1", "none", FULL, "", 3, 1)
            exh("u1", "two", WIDE, "w", 4, 2)
            exh("u1", "three", FULL, "", 3, 1)
            exh("u1", "none", LIMIT6, "l", 6, 2)
            nrand, per = 128, 200
        for s in range(nrand):
            specs.append({"name": f"rand-{seed * 1000 + s}", "kind": "rand", "seed": seed * 1000 + s, "n": per, "len": 40, "size": per * 3})
        specs.sort(key=lambda c: -c["size"])  # longest first: no long tail on the worker pool
        return specs

    def run_case(self, spec):
        cov, out = Cov(), []
        sigs = set()
        nontriv = 0
        probes.uninstall_all()
        install_taps()
        try:
            if spec["kind"] == "exh":
                A = alphabet(spec["subject"])
                pre = PREAMBLES[spec["preamble"]]
                rest = spec["depth"] - len(spec["fixed"])
                for tail in itertools.product(spec["alpha"], repeat=rest):
                    idx = pre + spec["fixed"] + list(tail)
                    d = run_seq([A[i] for i in idx], cov, out, {"kind": "exh", "family": spec["subject"], "ops_idx": idx, "limit": spec["limit"],
                                                                "timeout": spec["timeout"]},
                                spec["limit"], spec["timeout"], spec["pre_users"], spec["subject"])
                    cov.inc("sequences")
                    if d.n_login_ok and d.n_neg:
                        nontriv += 1
                        sigs.add(digest(d.trace))
                    if len(out) >= 6:
                        break
            else:
                rnd = random.Random(spec["seed"])
                RA = random_alphabet()
                for k in range(spec["n"]):
                    lim, T = rnd.choice([(3, 3), (2, 2), (3, 2), (2, 4), (4, 3)])
                    pre_users = rnd.choice([[], USERS_B, USERS_B])
                    ops = [rnd.choice(RA) for _ in range(spec["len"])]
                    rnd_d = random.Random(f"{spec['seed']}-{k}-server-power-durations")  # own stream: the op sequences of older seeds stay as they were
                    srv_dur = rnd_d.choice([(0, 0), (0, 0), (0, 2), (2, 3), (1, 1)])
                    if srv_dur != (0, 0):
                        cov.inc("sequences_with_timed_server_power")
                    d = run_seq(ops, cov, out, {"kind": "rand", "seed": spec["seed"], "k": k, "limit": lim, "timeout": T, "srv_dur": list(srv_dur),
                                                "pre_users": [u["username"] for u in pre_users]}, lim, T, pre_users, srv_dur=srv_dur)
                    cov.inc("sequences")
                    cov.mx("ops_in_sequence", len(d.log))
                    if d.n_login_ok and d.n_neg:
                        nontriv += 1
                        sigs.add(digest(d.trace))
                    if len(out) >= 6:
                        break
        finally:
            probes.uninstall_all()
        cov.d["distinct_traces"] = sorted(sigs)[:4000]
        cov.inc("nontrivial_sequences", nontriv)
        return {"violations": out, "cov": cov.d, "nontrivial": nontriv > 0, "digest": digest(spec),
                "sample": {"case": {k: v for k, v in spec.items() if k != "pre_users"}, "sequences": cov.d.get("sequences"), "nontrivial_sequences": nontriv}}

    def post(self, specs, results, tier, seed):
        sigs = set()
        for r in results:
            if r and "cov" in r:
                sigs |= set(r["cov"].get("distinct_traces", []))
        return {"digests": sorted(sigs)}


CHECK = Check()
