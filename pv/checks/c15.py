"""C15 - file system structural consistency under any operation sequence.

Monitor: invariant at quiescent points (after every request / action / tick) on the real FileSystem of a real
Computer node + transition oracle (pre-state observed by name, op => required response class / post-state).
Workload: bounded-exhaustive op sequences (requests and agent actions formed by the real action classes) and random
deep sequences.
"""
from __future__ import annotations

import itertools
import random

from pv.harness import Cov, digest, viol

D, E, F, G = "d", "e", "f.txt", "g.txt"

# op = (kind, via, folder, file|None, extra)
OPS = [
    ("create_file", "request", D, F, False),
    ("create_file", "request", D, F, True),
    ("create_file", "action", D, F, None),
    ("create_file", "request", D, G, False),
    ("delete_file", "action", D, F, None),
    ("restore_file", "request", D, F, None),
    ("file_verb", "action", D, F, "restore"),
    ("delete_folder", "request", D, None, None),
    ("restore_folder", "request", D, None, None),
    ("folder_verb", "action", D, None, "restore"),
    ("create_folder", "action", D, None, None),
    ("file_verb", "action", D, F, "scan"),
    ("file_verb", "action", D, F, "corrupt"),
    ("folder_verb", "action", D, None, "repair"),
    ("access", "action", D, F, None),
    ("tick", None, None, None, None),
    ("folder_delete_file", "request", D, F, None),
]
EXTRA_OPS = [
    ("create_file", "action", E, F, None),
    ("create_file", "request", "root", F, False),
    ("delete_file", "action", "root", F, None),
    ("delete_folder", "request", "root", None, None),
    ("delete_folder", "request", E, None, None),
    ("create_folder", "request", E, None, None),
    ("restore_folder", "request", E, None, None),
    ("file_verb", "action", D, G, "repair"),
    ("file_verb", "action", D, F, "checkhash"),
    ("folder_verb", "action", D, None, "scan"),
    ("folder_corrupt", "request", D, None, None),
    ("folder_verb", "action", D, None, "checkhash"),
    ("delete_file", "action", D, G, None),
    ("restore_file", "request", D, G, None),
    ("delete_file", "request", "nosuch", F, None),
    ("file_verb", "action", "nosuch", F, "scan"),
    ("access", "action", D, "nosuch.txt", None),
    ("power", None, None, None, None),
]
ALL_OPS = OPS + EXTRA_OPS
REDUCED = [0, 2, 4, 5, 7, 8, 10, 15, 16, 6]

_am = None


def form(action, **opts):
    global _am
    from primaite.game.agent.actions import ActionManager

    if _am is None:
        _am = ActionManager()
    return _am.form_request(action, opts)


def op_request(op, host="pc"):
    kind, via, fo, fi, extra = op
    pre = ["network", "node", host]
    if kind == "create_file":
        if via == "action":
            return form("node-file-create", node_name=host, folder_name=fo, file_name=fi)
        return pre + ["file_system", "create", "file", fo, fi, extra]
    if kind == "create_folder":
        if via == "action":
            return form("node-folder-create", node_name=host, folder_name=fo)
        return pre + ["file_system", "create", "folder", fo]
    if kind == "delete_file":
        if via == "action":
            return form("node-file-delete", node_name=host, folder_name=fo, file_name=fi)
        return pre + ["file_system", "delete", "file", fo, fi]
    if kind == "folder_delete_file":
        return pre + ["file_system", "folder", fo, "delete", fi]
    if kind == "restore_file":
        return pre + ["file_system", "restore", "file", fo, fi]
    if kind == "delete_folder":
        return pre + ["file_system", "delete", "folder", fo]
    if kind == "restore_folder":
        return pre + ["file_system", "restore", "folder", fo]
    if kind == "file_verb":
        return form(f"node-file-{extra}", node_name=host, folder_name=fo, file_name=fi)
    if kind == "folder_verb":
        return form(f"node-folder-{extra}", node_name=host, folder_name=fo)
    if kind == "folder_corrupt":
        return pre + ["file_system", "folder", fo, "corrupt"]
    if kind == "access":
        return form("node-file-access", node_name=host, folder_name=fo, file_name=fi)
    raise ValueError(kind)


def mk_node(restore_duration=1, scan_duration=1):
    from primaite.simulator.network.hardware.nodes.host.computer import Computer

    node = Computer.from_config({"type": "computer", "hostname": "pc", "ip_address": "192.168.1.5",
                                 "subnet_mask": "255.255.255.0", "start_up_duration": 0, "shut_down_duration": 0})
    node.power_on()
    fs = node.file_system
    fs._default_folder_restore_duration = restore_duration
    fs._default_folder_scan_duration = scan_duration
    for fo in fs.folders.values():
        fo.restore_duration, fo.scan_duration = restore_duration, scan_duration
    return node


class FSMonitor:
    def __init__(self, node, cov, out, ctx):
        self.node, self.fs, self.cov, self.out, self.ctx = node, node.file_system, cov, out, ctx
        self.seen_folders = {}  # uuid -> name
        self.seen_files = {}  # uuid -> (folder uuid, name)
        self.replaced_ok = set()
        self.log = []
        self.t = 0
        self.states = set()
        self.scan()

    # ---- observation helpers
    def names(self):
        live = {}
        for fo in self.fs.folders.values():
            live.setdefault(fo.name, []).append(fo)
        dele = {}
        for fo in self.fs.deleted_folders.values():
            dele.setdefault(fo.name, []).append(fo)
        return live, dele

    def pre_state(self, fo_name, fi_name):
        live, dele = self.names()
        st = {"folder_live": fo_name in live, "folder_deleted": fo_name in dele, "file_live": False, "file_deleted": False,
              "n_folder_deleted": len(dele.get(fo_name, [])), "n_file_deleted": 0}
        if fo_name in live:
            fo = live[fo_name][0]
            st["file_live"] = any(f.name == fi_name for f in fo.files.values())
            st["n_file_deleted"] = sum(1 for f in fo.deleted_files.values() if f.name == fi_name)
            st["file_deleted"] = st["n_file_deleted"] > 0
        return st

    def scan(self):
        for fo in list(self.fs.folders.values()) + list(self.fs.deleted_folders.values()):
            self.seen_folders.setdefault(fo.uuid, fo.name)
            for fi in list(fo.files.values()) + list(fo.deleted_files.values()):
                self.seen_files.setdefault(fi.uuid, (fo.uuid, fi.name))

    def abstract(self):
        live, dele = self.names()
        d = []
        for nm, fos in sorted(live.items()):
            for fo in fos:
                d.append(("L", nm, tuple(sorted(f.name for f in fo.files.values())), tuple(sorted(f.name for f in fo.deleted_files.values()))))
        for nm, fos in sorted(dele.items()):
            for fo in fos:
                d.append(("D", nm, tuple(sorted(f.name for f in fo.files.values())), tuple(sorted(f.name for f in fo.deleted_files.values()))))
        return tuple(d)

    def v(self, mech, msg):
        if len(self.out) < 10 and not any(o["mech"] == mech for o in self.out):
            self.out.append(viol(mech, msg, {"ctx": self.ctx, "ops": list(self.log)}))

    # ---- invariants
    def check(self, after):
        fs = self.fs
        self.cov.inc("invariant_evals")
        self.scan()
        kind = after[0] if isinstance(after, tuple) else after
        live_names = [fo.name for fo in fs.folders.values()]
        if len(set(live_names)) != len(live_names):
            self.v(f"dup-live-folder-name@{kind}", f"two live folders share a name after {after}: {live_names}")
        both = set(fs.folders) & set(fs.deleted_folders)
        if both:
            self.v(f"folder-in-both-sets@{kind}", f"folder(s) {[self.seen_folders[u] for u in both]} in live AND deleted set after {after}")
        for u, nm in self.seen_folders.items():
            if u not in fs.folders and u not in fs.deleted_folders:
                self.v(f"folder-in-neither-set@{kind}", f"folder {nm} in neither set after {after}")
        for fo in fs.folders.values():
            if fo.deleted:
                self.v(f"live-folder-flagged-deleted@{kind}", f"folder {fo.name} is in the live set but deleted=True after {after}")
        for fo in fs.deleted_folders.values():
            if not fo.deleted:
                self.v(f"deleted-folder-flagged-live@{kind}", f"folder {fo.name} is in the deleted set but deleted=False after {after}")
        allf = list(fs.folders.values()) + list(fs.deleted_folders.values())
        for fo in allf:
            names = [f.name for f in fo.files.values()]
            if len(set(names)) != len(names):
                self.v(f"dup-live-file-name@{kind}", f"folder {fo.name}: live file names not unique after {after}: {names}")
            bothf = set(fo.files) & set(fo.deleted_files)
            if bothf:
                self.v(f"file-in-both-sets@{kind}", f"folder {fo.name}: file(s) {[fo.files[u].name for u in bothf]} in live AND deleted set after {after}")
            for f in fo.files.values():
                if f.deleted:
                    self.v(f"live-file-flagged-deleted@{kind}", f"{fo.name}/{f.name} in live set but deleted=True after {after}")
            for u, f in fo.deleted_files.items():
                if not f.deleted and u not in fo.files:
                    self.v(f"deleted-file-flagged-live@{kind}", f"{fo.name}/{f.name} in deleted set but deleted=False after {after}")
        known_folder = set(fs.folders) | set(fs.deleted_folders)
        for u, (fu, nm) in self.seen_files.items():
            if fu in known_folder:
                fo = fs.folders.get(fu) or fs.deleted_folders.get(fu)
                if u not in fo.files and u not in fo.deleted_files:
                    self.v(f"file-in-neither-set@{kind}", f"file {fo.name}/{nm} in neither set after {after}")
        # reported state lists exactly the live and deleted items
        st = fs.describe_state()
        if set(st["folders"]) != set(live_names) or len(st["folders"]) != len(fs.folders):
            self.v(f"state-folders-mismatch@{kind}", f"describe_state folders {sorted(st['folders'])} vs live {sorted(live_names)} after {after}")
        if set(st["deleted_folders"]) != {fo.name for fo in fs.deleted_folders.values()}:
            self.v(f"state-deleted-folders-mismatch@{kind}", f"describe_state deleted_folders mismatch after {after}")
        for fo in fs.folders.values():
            fst = st["folders"].get(fo.name)
            if fst is None:
                continue
            if len(set(live_names)) == len(live_names):
                if set(fst["files"]) != {f.name for f in fo.files.values()} or len(fst["files"]) != len(fo.files):
                    self.v(f"state-files-mismatch@{kind}", f"describe_state files of {fo.name}: {sorted(fst['files'])} vs "
                           f"{sorted(f.name for f in fo.files.values())} after {after}")
                if set(fst["deleted_files"]) != {f.name for f in fo.deleted_files.values()}:
                    self.v(f"state-deleted-files-mismatch@{kind}", f"describe_state deleted_files of {fo.name} mismatch after {after}")
        a = self.abstract()
        self.states.add(a)

    # ---- drive
    def apply(self, op):
        kind, via, fo, fi, extra = op
        self.log.append(list(op))
        self.cov.hit("ops", f"{kind}/{via}/{extra}" if extra not in (None, True, False) else f"{kind}/{via}")
        if kind == "tick":
            self.t += 1
            self.node.apply_timestep(self.t)
            self.check(("apply_timestep",))
            self.node.pre_timestep(self.t)
            if self.fs.num_file_creations != 0 or self.fs.num_file_deletions != 0:
                self.v("counters-not-reset@pre_timestep", f"creations={self.fs.num_file_creations} deletions={self.fs.num_file_deletions} right after pre_timestep")
            self.cov.inc("counter_reset_checks")
            self.check(("pre_timestep",))
            return
        if kind == "power":
            # node power event (durations 0: immediate). The file system of a node that is off is still a file system: its structure and
            # its per-tick bookkeeping must stay consistent, and requests are simply refused meanwhile
            on = self.node.operating_state.name == "ON"
            self.node.config.shut_down_duration = 0
            self.node.config.start_up_duration = 0
            self.node.apply_request(["shutdown" if on else "startup"])
            self.cov.hit("power_events", "shutdown" if on else "startup")
            self.check(("power",))
            return
        pre = self.pre_state(fo, fi) if fo else None
        req = op_request(op)
        assert req[:3] == ["network", "node", "pc"], req
        try:
            resp = self.node.apply_request(req[3:])
        except Exception as e:
            self.v(f"raises@{kind}/{via}", f"{req} raised {type(e).__name__}: {e} (pre-state {pre})")
            self.check(op)
            return
        status = getattr(resp, "status", None)
        self.log[-1].append(status)
        self.cov.hit("responses", f"{kind}:{status}")
        if status not in ("success", "failure", "unreachable", "pending"):
            self.v(f"bad-response@{kind}", f"{req} answered {resp!r}")
        post = self.pre_state(fo, fi)
        cls = ("L" if pre["folder_live"] else "D" if pre["folder_deleted"] else "-") + \
              ("L" if pre["file_live"] else "D" if pre["file_deleted"] else "-")
        self.cov.hit("op_x_prestate", f"{kind}|{cls}")
        if self.node.operating_state.name != "ON":
            # the node is off: the request is refused by the node's own rule and must change nothing (the structural invariants below
            # are still evaluated); the transition oracle is about requests that reach the file system
            self.cov.inc("requests_while_node_off")
            if status == "success" or post != pre:
                self.v(f"request-takes-effect-on-powered-off-node@{kind}", f"{req}: node is {self.node.operating_state.name} but status={status}, pre={pre} post={post}")
            self.check(op)
            return
        # transition oracle: only what the statement says explicitly
        if kind in ("delete_file", "folder_delete_file"):
            if pre["file_live"]:
                if status != "success" or post["file_live"] or not post["file_deleted"]:
                    self.v(f"delete-live-file-not-moved@{kind}", f"{req}: live file; status={status} post={post}")
            elif status == "success":
                self.v(f"delete-unavailable-file-succeeds@{kind}", f"{req} answered success although the file was not live (pre {pre})")
        elif kind == "restore_file":
            if pre["folder_live"] and pre["file_deleted"] and not pre["file_live"]:
                if status != "success" or not post["file_live"] or post["n_file_deleted"] != pre["n_file_deleted"] - 1:
                    self.v("restore-deleted-file-not-moved-back@restore_file", f"{req}: status={status} post={post}")
            if not pre["file_live"] and not pre["file_deleted"] and status == "success":
                self.v("restore-nonexistent-file-succeeds@restore_file", f"{req} success on never-created/unavailable file (pre {pre})")
        elif kind in ("file_verb", "access"):
            if not pre["file_live"] and status == "success":
                self.v(f"action-on-unavailable-file-succeeds@{kind}/{extra}", f"{req} answered success although file not live (pre {pre})")
        elif kind in ("folder_verb", "folder_corrupt"):
            if not pre["folder_live"] and status == "success":
                self.v(f"action-on-unavailable-folder-succeeds@{kind}/{extra}", f"{req} answered success although folder not live (pre {pre})")
        elif kind == "delete_folder":
            if pre["folder_live"] and fo != "root":
                if status != "success" or post["folder_live"] or not post["folder_deleted"]:
                    self.v("delete-live-folder-not-moved@delete_folder", f"{req}: status={status} post={post}")
            elif not pre["folder_live"] and status == "success":
                self.v("delete-unavailable-folder-succeeds@delete_folder", f"{req} success although folder not live")
        elif kind == "restore_folder":
            if pre["folder_deleted"] and not pre["folder_live"]:
                if status != "success" or not post["folder_live"] or post["n_folder_deleted"] != pre["n_folder_deleted"] - 1:
                    self.v("restore-deleted-folder-not-moved-back@restore_folder", f"{req}: status={status} post={post}")
        elif kind == "create_file":
            if pre["file_live"]:
                self.cov.inc("create_existing_file")
            elif status == "success" and not post["file_live"]:
                self.v("create-file-success-but-absent@create_file", f"{req} answered success but the file is not live")
        elif kind == "create_folder":
            if pre["folder_live"]:
                self.cov.inc("create_existing_folder")
            elif status == "success" and not post["folder_live"]:
                self.v("create-folder-success-but-absent@create_folder", f"{req} answered success but folder not live")
        self.check(op)


def run_seq(ops, cov, out, ctx, durs=(1, 1)):
    node = mk_node(*durs)
    m = FSMonitor(node, cov, out, ctx)
    for op in ops:
        m.apply(op)
        if out:  # attribute a broken invariant to the op that introduced it; later ops would only re-report it
            break
    return m


class Check:
    pid = "C15"
    level = "exploration"
    rule = ("cases: every sequence of length<=DEPTH over a 17-op alphabet (requests + requests formed by the real "
            "node-file-*/node-folder-* action classes: create (force/no force/action), delete, restore (fs-level and "
            "item-level), folder delete/restore/create, scan/corrupt/repair/access, folder-level delete, tick) on one folder "
            "and one file name of a real Computer node, plus random sequences of length 40 over a 34-op alphabet (2-3 folder "
            "and file names, root, never-created targets). Non-trivial sequence: reached >=3 distinct abstract FS states "
            "(live/deleted name sets); distinct by the set of abstract states visited.")
    assumptions = [
        "uniqueness is per live name; partition is per object (uuid), as in DESIGN C15",
        "a create of an existing item may succeed as a no-op or be refused; it may not raise or add a second live item",
        "folder restore/scan durations set to 1 tick via the documented defaults hooks (timing itself is C14's business)",
    ]
    min_monitor = {"invariant_evals": 2000, "counter_reset_checks": 50, "create_existing_file": 20}
    case_timeout = {"quick": 1200, "thorough": 3600}

    def cases(self, tier, seed):
        specs = []
        n = len(OPS)
        if tier == "quick":
            # depth 3 exhaustive over the 17-op alphabet, chunked by first op; depth 5 over the reduced alphabet
            for first in range(n):
                specs.append({"name": f"exh3-{first}", "kind": "exh", "depth": 3, "first": first, "alpha": list(range(n))})
            for first in REDUCED:
                specs.append({"name": f"exh5r-{first}", "kind": "exh", "depth": 5, "first": first, "alpha": REDUCED})
            for s in range(16):
                specs.append({"name": f"rand-{seed * 1000 + s}", "kind": "rand", "seed": seed * 1000 + s, "n": 40, "len": 40})
        else:
            # sized to finish in about half an hour on 16 cores: 17^4 = 83.5k sequences over the full alphabet, 10^6 over the reduced one
            for first in range(n):
                for second in range(n):
                    specs.append({"name": f"exh4-{first}-{second}", "kind": "exh", "depth": 4, "first": first, "second": second,
                                  "alpha": list(range(n))})
            for first in REDUCED:
                for second in REDUCED:
                    specs.append({"name": f"exh6r-{first}-{second}", "kind": "exh", "depth": 6, "first": first, "second": second,
                                  "alpha": REDUCED})
            for s in range(64):
                specs.append({"name": f"rand-{seed * 1000 + s}", "kind": "rand", "seed": seed * 1000 + s, "n": 150, "len": 60})
        return specs

    def run_case(self, spec):
        cov, out = Cov(), []
        sigs = set()
        nontriv = 0
        if spec["kind"] == "exh":
            alpha = spec["alpha"]
            fixed = [spec["first"]] + ([spec["second"]] if "second" in spec else [])
            rest = spec["depth"] - len(fixed)
            for ln in range(0, rest + 1):
                for tail in itertools.product(alpha, repeat=ln):
                    if ln < rest and "second" not in spec and False:
                        continue
                    idx = fixed + list(tail)
                    if ln < rest:
                        # shorter sequences are prefixes of longer ones: invariants are checked after every op anyway
                        continue
                    m = run_seq([OPS[i] for i in idx], cov, out, {"kind": "exh", "ops_idx": idx})
                    cov.inc("sequences")
                    if len(m.states) >= 3:
                        nontriv += 1
                        sigs.add(digest(sorted(map(str, m.states))))
                    if len(out) >= 6:
                        break
                if len(out) >= 6:
                    break
        else:
            rnd = random.Random(spec["seed"])
            for k in range(spec["n"]):
                durs = (rnd.choice([1, 1, 2, 3]), rnd.choice([1, 2]))
                ops = [rnd.choice(ALL_OPS) if rnd.random() < 0.7 else rnd.choice(OPS) for _ in range(spec["len"])]
                m = run_seq(ops, cov, out, {"kind": "rand", "seed": spec["seed"], "k": k, "durs": durs}, durs)
                cov.inc("sequences")
                if len(m.states) >= 3:
                    nontriv += 1
                    sigs.add(digest(sorted(map(str, m.states))))
                if len(out) >= 6:
                    break
        cov.d["distinct_state_sets"] = sorted(sigs)
        cov.inc("nontrivial_sequences", nontriv)
        return {"violations": out, "cov": cov.d, "nontrivial": nontriv > 0, "digest": digest(spec),
                "sample": {"case": spec, "sequences": cov.d.get("sequences"), "nontrivial_sequences": nontriv}}

    def post(self, specs, results, tier, seed):
        sigs = set()
        for r in results:
            if r and "cov" in r:
                sigs |= set(r["cov"].get("distinct_state_sets", []))
        return {"digests": sorted(sigs)}


CHECK = Check()
