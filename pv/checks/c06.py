"""C06 - blocking is effective: a host cut off from another cannot affect it; a denied frame is never forwarded by the
denying device nor handed to its own software.

Monitors:
 (a) paired-run differential on B: two deterministic runs, identical except A's script (attack repertoire vs idle); after
     every operation B's full snapshot (describe_state + ARP/session/connection/user/file state, opaque ids normalised)
     must be equal, and no frame sourced from A's addresses may be accepted by B. Judged only when the independent
     reachability model (pv.models.netref) says EVERY frame A can emit towards B is dropped on every path.
 (b) dynamic-extent monitor: once an ACL of a router/firewall answered deny for a frame, that frame object must not be
     passed to any send_frame of that node nor to its session manager.
"""
from __future__ import annotations

import copy
import random
from ipaddress import IPv4Address

from pv import corpus, probes, snap
from pv.harness import Cov, digest, viol
from pv.models.netref import NetRef

Z = dict(start_up_duration=0, shut_down_duration=0)
PORTS_TO_TEST = [21, 22, 53, 80, 123, 5432, 9999]


# ------------------------------------------------------------------------------------------------ scenarios
def b_services():
    return [{"type": "database-service"}, {"type": "ftp-server"}, {"type": "web-server"}, {"type": "dns-server", "options": {"domain_mapping": {"b.com": "B"}}}]


def a_software(b_ip):
    return dict(applications=[
        {"type": "database-client", "options": {"db_server_ip": b_ip}},
        {"type": "data-manipulation-bot", "options": {"port_scan_p_of_success": 1.0, "data_manipulation_p_of_success": 1.0, "payload": "DELETE", "server_ip": b_ip}},
        {"type": "ransomware-script", "options": {"server_ip": b_ip, "payload": "ENCRYPT"}},
        {"type": "dos-bot", "options": {"target_ip_address": b_ip, "payload": "SPOOF DATA", "port_scan_p_of_success": 1.0, "repeat": True, "max_sessions": 20}},
        {"type": "web-browser", "options": {"target_url": f"http://{b_ip}/users/"}},
    ], services=[{"type": "ftp-client"}], dns_server=b_ip)


def build(family, block, rnd):
    """-> (cfg, info). A = attacker host, B = victim server. `block` names the blocking mechanism."""
    n = corpus.Net()
    info = {"family": family, "block": block, "late": []}
    deny_any = {"action": "DENY"}
    if family == "lan":
        n.switch("sw1", 6, **Z)
        a_ip, b_ip = "192.168.1.10", "192.168.1.20"
        n.host("A", a_ip, **Z, **a_software(b_ip))
        n.host("B", b_ip, kind="server", **Z, services=_svc(b_ip))
        n.host("C", "192.168.1.30", kind="server", **Z, services=[{"type": "ftp-server"}])
        n.to_switch("sw1", "A")
        n.to_switch("sw1", "B")
        n.to_switch("sw1", "C")
        info["mech_ops"] = {"b-nic-off": ["network", "node", "B", "network_interface", 1, "disable"],
                            "switch-port-off": ["network", "node", "sw1", "network_interface", 2, "disable"],
                            "b-off": ["network", "node", "B", "shutdown"],
                            "switch-off": ["network", "node", "sw1", "shutdown"],
                            "a-nic-off": ["network", "node", "A", "network_interface", 1, "disable"]}
    elif family == "routed":
        a_ip, b_ip = "10.0.1.10", "10.0.2.20"
        acl = {0: {"action": "PERMIT"}}
        if block == "acl-added-late":
            # the slot the blocking rule will be written into already holds a narrower rule (the block must REPLACE it, criteria and all)
            acl = {0: {"action": "PERMIT", "protocol": "TCP", "src_ip": a_ip, "dst_ip": b_ip, "dst_port": "POSTGRES_SERVER"}, 5: {"action": "PERMIT"}}
        if block == "acl-exact-src":
            acl = {1: {"action": "DENY", "src_ip": a_ip}, 5: {"action": "PERMIT"}}
        elif block == "acl-range-src":
            acl = {1: {"action": "DENY", "src_ip": a_ip, "src_wildcard_mask": "0.0.0.255"}, 5: {"action": "PERMIT"}}  # base with bits set under the mask
        elif block == "acl-exact-dst":
            acl = {2: {"action": "DENY", "dst_ip": b_ip}, 5: {"action": "PERMIT"}}
        elif block == "acl-any-any":
            acl = {0: dict(deny_any)}
        elif block == "acl-implicit":
            acl = {4: {"action": "PERMIT", "src_ip": "10.0.3.0", "src_wildcard_mask": "0.0.0.255"}}  # only unrelated permits; defaults ARP/ICMP overridden below
            acl[22] = {"action": "DENY", "src_port": "ARP", "dst_port": "ARP", "src_ip": "10.9.9.9"}
            acl[23] = {"action": "DENY", "protocol": "ICMP", "src_ip": a_ip}
        elif block == "acl-implicit-noncontig":
            # like acl-implicit, but the only PERMIT uses a non-contiguous wildcard (host .20 of every 10.0.x.0/24): it must not match 10.0.1.10
            acl = {4: {"action": "PERMIT", "src_ip": "10.0.0.20", "src_wildcard_mask": "0.0.255.0"}}
            acl[22] = {"action": "DENY", "src_port": "ARP", "dst_port": "ARP", "src_ip": "10.9.9.9"}
            acl[23] = {"action": "DENY", "protocol": "ICMP", "src_ip": a_ip}
        elif block == "acl-per-protocol":
            acl = {1: {"action": "DENY", "protocol": "TCP", "src_ip": a_ip}, 2: {"action": "DENY", "protocol": "UDP", "src_ip": a_ip},
                   3: {"action": "DENY", "protocol": "ICMP", "src_ip": a_ip}, 6: {"action": "PERMIT"}}
        elif block == "acl-port-only":
            acl = {1: {"action": "DENY", "protocol": "TCP", "dst_port": "POSTGRES_SERVER"}, 5: {"action": "PERMIT"}}  # NOT a complete block
        n.router("r1", {1: ("10.0.1.1", "255.255.255.0"), 2: ("10.0.2.1", "255.255.255.0"), 3: ("10.0.3.1", "255.255.255.0")}, acl=acl, **Z)
        for i in (1, 2, 3):
            n.switch(f"sw{i}", 6, **Z)
            n.link("r1", i, f"sw{i}", 6)
            n._swport[f"sw{i}"] = 0
        n.host("A", a_ip, gw="10.0.1.1", **Z, **a_software(b_ip))
        n.host("B", b_ip, gw="10.0.2.1", kind="server", **Z, services=_svc(b_ip))
        n.host("C", "10.0.3.30", gw="10.0.3.1", kind="server", **Z, services=[{"type": "ftp-server"}])
        n.to_switch("sw1", "A")
        n.to_switch("sw2", "B")
        n.to_switch("sw3", "C")
        deny_req = ["network", "node", "r1", "acl", "add_rule", "DENY", "ALL", a_ip, "NONE", "ALL", "ALL", "NONE", "ALL", 0]
        info["mech_ops"] = {"router-port-off": ["network", "node", "r1", "network_interface", 2, "disable"], "router-off": ["network", "node", "r1", "shutdown"],
                            "b-nic-off": ["network", "node", "B", "network_interface", 1, "disable"], "b-off": ["network", "node", "B", "shutdown"],
                            "acl-added-late": deny_req}
    elif family == "dmz":
        zones = rnd.choice([("external", "internal"), ("internal", "dmz"), ("external", "dmz"), ("dmz", "internal"), ("internal", "external"), ("dmz", "external")])
        nets = {"external": ("10.0.3", 1), "internal": ("10.0.1", 2), "dmz": ("10.0.2", 3)}
        za, zb = zones
        a_ip, b_ip = f"{nets[za][0]}.10", f"{nets[zb][0]}.20"
        permit = {0: {"action": "PERMIT"}}
        acl = {k: copy.deepcopy(permit) for k in ("internal_inbound_acl", "internal_outbound_acl", "dmz_inbound_acl", "dmz_outbound_acl", "external_inbound_acl", "external_outbound_acl")}
        # the list that frames from A's zone meet first / the list guarding B's zone
        first = {"external": "external_inbound_acl", "internal": "internal_outbound_acl", "dmz": "dmz_outbound_acl"}[za]
        last = {"dmz": "dmz_inbound_acl", "internal": "internal_inbound_acl", "external": "external_outbound_acl"}[zb]
        if block == "fw-first-list":
            acl[first] = {0: {"action": "DENY", "src_ip": a_ip}, 1: {"action": "PERMIT"}}
        elif block == "fw-last-list":
            acl[last] = {0: {"action": "DENY", "dst_ip": b_ip}, 1: {"action": "PERMIT"}}
        elif block == "fw-last-list-any":
            acl[last] = {0: {"action": "DENY"}}
        elif block == "fw-port-only":
            acl[last] = {0: {"action": "DENY", "protocol": "TCP", "dst_port": "HTTP"}, 1: {"action": "PERMIT"}}  # NOT a complete block
        info["zones"] = zones
        info["lists"] = (first, last)
        n.firewall("fw", external=("10.0.3.1", "255.255.255.0"), internal=("10.0.1.1", "255.255.255.0"), dmz=("10.0.2.1", "255.255.255.0"), acl=acl, **Z)
        for z, (pref, port) in nets.items():
            n.switch(f"sw_{z}", 6, **Z)
            n.link("fw", port, f"sw_{z}", 6)
            n._swport[f"sw_{z}"] = 0
        n.host("A", a_ip, gw=f"{nets[za][0]}.1", **Z, **a_software(b_ip))
        n.host("B", b_ip, gw=f"{nets[zb][0]}.1", kind="server", **Z, services=_svc(b_ip))
        n.to_switch(f"sw_{za}", "A")
        n.to_switch(f"sw_{zb}", "B")
        info["mech_ops"] = {"fw-off": ["network", "node", "fw", "shutdown"], "b-off": ["network", "node", "B", "shutdown"],
                            "fw-port-off": ["network", "node", "fw", "network_interface", nets[zb][1], "disable"]}
    info["a_ip"], info["b_ip"] = a_ip, b_ip
    return n.scenario(), info


def _svc(b_ip):
    s = b_services()
    s[3]["options"]["domain_mapping"] = {"b.com": b_ip}
    return s


ATTACKS = ["ping", "nmap-ping", "nmap-ports", "db-connect-query", "dm-bot", "ransomware", "dos-bot", "ftp-send", "ssh-login-command", "web-get", "tick"]


def attack(kind, sim, info, rnd):
    net = sim.network
    A = net.get_node_by_hostname("A")
    b_ip = info["b_ip"]
    sw = A.software_manager.software
    if kind == "ping":
        A.ping(b_ip, pings=2)
    elif kind == "nmap-ping":
        sw["nmap"].ping_scan(target_ip_address=[b_ip], show=False)
    elif kind == "nmap-ports":
        sw["nmap"].port_scan(target_ip_address=b_ip, target_port=[21, 22, 80, 5432], target_protocol=["tcp", "udp"], show=False)
    elif kind == "db-connect-query":
        c = sw["database-client"].get_new_connection()
        if c:
            c.query("SELECT")
            c.query("DELETE")
    elif kind == "dm-bot":
        sim.apply_request(["network", "node", "A", "application", "data-manipulation-bot", "execute"])
    elif kind == "ransomware":
        sim.apply_request(["network", "node", "A", "application", "ransomware-script", "execute"])
    elif kind == "dos-bot":
        sim.apply_request(["network", "node", "A", "application", "dos-bot", "execute"])
    elif kind == "ftp-send":
        A.file_system.create_file(file_name=f"x{rnd.randint(0, 999)}.dat", size=2000, folder_name="out")
        f = list(A.file_system.get_folder("out").files.values())[-1]
        sw["ftp-client"].send_file(src_folder_name="out", src_file_name=f.name, dest_folder_name="in", dest_file_name=f.name, dest_ip_address=IPv4Address(b_ip))
    elif kind == "ssh-login-command":
        conn = sw["terminal"].login(username="admin", password="admin", ip_address=IPv4Address(b_ip))
        if conn:
            conn.execute(["file_system", "create", "folder", "pwned"])
    elif kind == "web-get":
        sw["web-browser"].get_webpage()


def b_snapshot(sim, norm):
    B = sim.network.get_node_by_hostname("B")
    extra = snap._plain(snap.node_extra(B))

    def count_ids(d):
        # lists of opaque ids sorted by their raw value carry no stable order across runs: compare their sizes
        if isinstance(d, dict):
            return {k: (len(v) if k in ("sessions", "connections", "client_connections", "remote_sessions") and isinstance(v, list) else count_ids(v)) for k, v in d.items()}
        return d

    st = {"state": snap._plain(B.describe_state()), "extra": count_ids(extra)}
    return norm.s(st)


# ------------------------------------------------------------------------------------------------ (b) deny-then-forward
class DenyMonitor:
    def __init__(self, cov, out, ctx):
        self.cov, self.out, self.ctx = cov, out, ctx
        self.denied = {}  # id(frame) -> (node, acl name)
        self.acl_owner = {}
        self.accepted_from_a = 0
        self.a_ips = set()
        self.B = None

    def v(self, mech, msg):
        if not any(o["mech"] == mech for o in self.out):
            self.out.append(viol(mech, msg, {"ctx": self.ctx}))

    def bind(self, sim, info):
        from primaite.simulator.network.hardware.nodes.network.firewall import Firewall
        from primaite.simulator.network.hardware.nodes.network.router import Router

        for node in sim.network.nodes.values():
            if isinstance(node, Router):
                self.acl_owner[id(node.acl)] = (node, "acl")
            if isinstance(node, Firewall):
                for ln in ("internal_inbound_acl", "internal_outbound_acl", "dmz_inbound_acl", "dmz_outbound_acl", "external_inbound_acl", "external_outbound_acl"):
                    self.acl_owner[id(getattr(node, ln))] = (node, ln)
        self.a_ips = {IPv4Address(info["a_ip"])}
        self.B = sim.network.get_node_by_hostname("B")

    def install(self):
        from primaite.simulator.network.hardware.base import WiredNetworkInterface
        from primaite.simulator.network.hardware.nodes.host.host_node import NIC
        from primaite.simulator.network.hardware.nodes.network.router import AccessControlList
        from primaite.simulator.system.core.session_manager import SessionManager

        mon = self

        def post_perm(acl, tok, res, exc, frame):
            if res is None:
                return
            mon.cov.inc("acl_verdicts")
            if not res[0]:
                own = mon.acl_owner.get(id(acl))
                if own:
                    mon.denied[id(frame)] = (own[0], own[1], frame)
                    mon.cov.inc("frames_denied")
                    mon.cov.hit("denies_by_list", own[1])

        probes.wrap(AccessControlList, "is_permitted", None, post_perm)

        def pre_send(nic, frame):
            d = mon.denied.get(id(frame))
            if d and d[2] is frame and nic._connected_node is d[0]:
                mon.v(f"denied-frame-forwarded/{d[1]}", f"{d[0].config.hostname}: frame {frame.ip.src_ip_address}->{frame.ip.dst_ip_address} was denied by {d[1]} "
                      f"and then sent out of {nic}")
            mon.cov.inc("forward_checks")

        probes.wrap(WiredNetworkInterface, "send_frame", pre_send, None)

        def pre_sm(sm, frame, from_network_interface=None, *a, **k):
            d = mon.denied.get(id(frame))
            if d and d[2] is frame and getattr(sm, "node", None) is d[0]:
                mon.v(f"denied-frame-handed-to-own-software/{d[1]}", f"{d[0].config.hostname}: frame {frame.ip.src_ip_address}->{frame.ip.dst_ip_address} was denied by "
                      f"{d[1]} and then delivered to the device's session manager")

        probes.wrap(SessionManager, "receive_frame", pre_sm, None)

        def post_nic_rx(nic, tok, res, exc, frame):
            if res and nic._connected_node is mon.B and frame.ip is not None and frame.ip.src_ip_address in mon.a_ips:
                mon.accepted_from_a += 1

        probes.wrap(NIC, "receive_frame", None, post_nic_rx)


# ------------------------------------------------------------------------------------------------ case
def run_arm(cfg, info, script, attacker_active, late_block, cov, out, ctx):
    """attacker_active: True (A attacks throughout) or False (A attacks only BEFORE the block is in place, then idles -
    the counterfactual with the identical pre-block history)."""
    probes.uninstall_all()
    mon = DenyMonitor(cov if attacker_active else Cov(), out, ctx)
    mon.install()
    try:
        import primaite.game.game  # noqa: F401  (everything imported before the shims look for module-level names)

        probes.deterministic_entropy(ctx["seed"])
        game = corpus.build_game(cfg)
        sim = game.simulation
        mon.bind(sim, info)
        norm = snap.Normaliser()
        sim.pre_timestep(0)
        t = 0
        snaps = []
        rnd = random.Random(ctx["seed"])
        for i, kind in enumerate(script):
            if late_block and i == late_block[0]:
                sim.apply_request(list(late_block[1]))
                snaps = []  # compare B from the block step on
                mon.accepted_from_a = 0
            if kind == "tick":
                t += 1
                sim.apply_timestep(t)
                sim.pre_timestep(t)
            elif attacker_active or (late_block and i < late_block[0]):
                mon.denied.clear()
                try:
                    attack(kind, sim, info, rnd)
                except Exception as e:
                    cov.hit("diag_attack_raised", f"{kind}:{type(e).__name__}")
            snaps.append((kind, b_snapshot(sim, norm)))
        return snaps, mon.accepted_from_a
    finally:
        probes.uninstall_all()


def premise_blocked(cfg, info, mech_req):
    """does the reference model say every frame A can emit towards B is dropped?"""
    ref = NetRef(cfg)
    if mech_req:
        r = mech_req
        node = r[2]
        if r[3:] == ["shutdown"]:
            ref.set_power(node, False)
        elif len(r) >= 6 and r[3] == "network_interface" and r[5] == "disable":
            ref.set_if(node, r[4], False)
        elif len(r) >= 5 and r[3] == "acl" and r[4] == "add_rule":
            ref.nodes[node]["acl"].add(int(r[-1]), dict(action=r[5], protocol=None, src=int(IPv4Address(r[7])), srcw=None, dst=None, dstw=None, sport=None, dport=None))
    verdicts = set()
    for proto, ports in (("icmp", [None]), ("tcp", PORTS_TO_TEST), ("udp", PORTS_TO_TEST)):
        for p in ports:
            v, d, hops = ref.walk("A", info["b_ip"], (proto, p, p))
            verdicts.add(v)
    return verdicts == {"dropped"}, verdicts


def case_block(spec, cov, out):
    rnd = random.Random(spec["seed"])
    cfg, info = build(spec["family"], spec["block"], rnd)
    mech_req = info["mech_ops"].get(spec["block"])
    late = spec.get("late", False)
    blocked, verdicts = premise_blocked(cfg, info, mech_req)
    script = []
    for _ in range(spec["ops"]):
        script.append(rnd.choice(ATTACKS))
    late_block = None
    pre_ops = []
    if mech_req is not None:
        if late:
            late_block = (len(script) // 2, mech_req)
        else:
            late_block = (0, mech_req)
    ctx = {"seed": spec["seed"], "family": spec["family"], "block": spec["block"], "late": late, "zones": info.get("zones"), "script": script}
    active, accepted = run_arm(cfg, info, script, True, late_block, cov, out, ctx)
    cov.inc("attack_runs")
    cov.hit("block_mechanisms", f"{spec['family']}:{spec['block']}{':late' if late else ''}")
    for k in script:
        cov.hit("attack_tools", k)
    if not blocked:
        cov.inc("unblocked_skipped")
        cov.hit("premise", f"not-complete:{sorted(verdicts)}")
        return False
    cov.hit("premise", "complete-block")
    idle, _ = run_arm(cfg, info, script, False, late_block, cov, out, ctx)
    cov.inc("paired_runs_judged")
    if accepted:
        out.append(viol(f"frames-from-A-accepted-by-B/{spec['family']}:{spec['block']}", f"{accepted} frame(s) sourced from A were accepted by B's NIC although every path is blocked "
                        f"({spec['family']} / {spec['block']}{' applied mid-attack' if late else ''})", ctx))
    for i, ((k1, s1), (k2, s2)) in enumerate(zip(active, idle)):
        cov.inc("b_state_compares")
        d = snap.first_diff(s2, s1)
        if d:
            out.append(viol(f"blocked-attacker-changes-B/{spec['family']}:{spec['block']}/{k1}", f"B differs between the run where A attacks and the run where A idles, after op #{i} "
                            f"({k1}): {d[0]}: idle {str(d[1])[:120]!r} vs attacked {str(d[2])[:120]!r} ({spec['family']} / {spec['block']}{' late' if late else ''})", ctx))
            break
    return True


BLOCKS = {"lan": ["b-nic-off", "switch-port-off", "b-off", "switch-off", "a-nic-off"],
          "routed": ["acl-exact-src", "acl-range-src", "acl-exact-dst", "acl-any-any", "acl-implicit", "acl-implicit-noncontig", "acl-per-protocol", "acl-port-only", "router-port-off", "router-off",
                     "b-nic-off", "b-off", "acl-added-late"],
          "dmz": ["fw-first-list", "fw-last-list", "fw-last-list-any", "fw-port-only", "fw-off", "b-off", "fw-port-off"]}


class Check:
    pid = "C06"
    level = "exploration"
    rule = ("case = (topology: switched LAN / routed 3-subnet / firewall with internal-dmz-external zones and every ordered zone "
            "pair for A and B) x (blocking mechanism: deny ACL by exact source, source range, exact destination, any-any, implicit "
            "deny with unrelated permits, one deny per protocol, port-only (not a complete block: only part (b) judged), every "
            "firewall list first/last on the path, disabled NIC / router / switch / firewall port, device or B powered off) x "
            "(block in place from the start or applied mid-attack) x random attack scripts over {ping, nmap ping/port scan, db "
            "connect+SELECT+DELETE, data-manipulation bot, ransomware, DoS bot, FTP upload, ssh login + remote command, web GET, "
            "tick}. Non-trivial: the reference model confirms a complete block and the attacker emitted frames; distinct by "
            "(family, block, late, seed).")
    assumptions = [
        "premise 'every path is blocked' is asserted only when pv.models.netref drops ICMP and TCP/UDP on ports {21,22,53,80,123,5432,9999} from A to B; other cases are counted as unblocked_skipped (part (b) still applies)",
        "only A runs active software; B and third hosts are passive servers, so no third party relays A's intent",
        "B's state = describe_state + ARP cache, sessions, connections, users, file objects, countdowns (pv.snap), opaque ids normalised",
    ]
    min_monitor = {"paired_runs_judged": 25, "b_state_compares": 400, "frames_denied": 300, "forward_checks": 2000, "acl_verdicts": 1500}
    case_timeout = {"quick": 1500, "thorough": 5400}

    def cases(self, tier, seed):
        q = tier == "quick"
        specs = []
        reps = 2 if q else 10
        for fam, blocks in BLOCKS.items():
            for b in blocks:
                for late in (False, True):
                    if b.startswith("acl-") and b != "acl-added-late" and late:
                        continue
                    if b == "acl-added-late" and not late:
                        continue
                    if b.startswith("fw-") and b not in ("fw-off", "fw-port-off") and late:
                        continue
                    for r in range(reps if fam != "dmz" else reps * 2):
                        sd = seed * 10000 + len(specs)
                        specs.append({"name": f"{fam}-{b}-{'late' if late else 'pre'}-{r}", "family": fam, "block": b, "late": late, "seed": sd,
                                      "ops": 14 if q else 30})
        return specs

    def run_case(self, spec):
        cov, out = Cov(), []
        judged = case_block(spec, cov, out)
        return {"violations": out, "cov": cov.d, "nontrivial": bool(judged) and cov.d.get("forward_checks", 0) > 0, "digest": digest([spec["family"], spec["block"], spec["late"], spec["seed"]]),
                "sample": {"case": spec, "judged": bool(judged), "frames_denied": cov.d.get("frames_denied", 0)}}


CHECK = Check()
