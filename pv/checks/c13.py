"""C13 - software lifecycle; only running software works; registries agree.

Monitors (all attached from outside):
  * field-write tap on Service.operating_state / Application.operating_state: every write (old, new) on the node under
    test must be an edge the documented relation allows for the event in progress;
  * reference lifecycle FSM per service / application (pv/models/lifecycle_ref.py), stepped by the same events and
    compared with the simulator objects after every request / tick (includes restart / install completion ticks);
  * request acceptance: every lifecycle request (raw request list or formed by the real node-service-* /
    node-application-* action classes) must be answered success exactly in its documented source states;
  * payload tap on every concrete `receive` override of IOSoftware subclasses (state at entry, return value, frames sent
    from inside): software that is not RUNNING must not handle a payload; `get_open_ports()` / `check_port_is_open()` must
    not report a port that no RUNNING software owns or listens on;
  * registry agreement (by software name and by object identity) after every operation: software_manager.software, node.services /
    node.applications, request routes, port_protocol_mapping, describe_state().
Workload: one target software per case family on host T (peer host P drives inbound payloads with the matching client),
bounded-exhaustive event words plus a drain; random words on a host that carries many services and applications.
"""
from __future__ import annotations

import itertools
import random
from ipaddress import IPv4Address

from pv import corpus, probes
from pv.harness import Cov, digest, viol
from pv.models import lifecycle_ref as L

TIP, PIP, SIP = "192.168.1.20", "192.168.1.10", "192.168.1.30"
HOST = "T"
R = L.R

SERVICE_TYPES = ["dns-client", "dns-server", "database-service", "web-server", "ftp-client", "ftp-server", "ntp-client",
                 "ntp-server", "terminal"]
APP_TYPES = ["database-client", "web-browser", "data-manipulation-bot", "ransomware-script", "dos-bot", "c2-beacon",
             "c2-server", "nmap"]
SYS_SERVICE_TYPES = ["icmp", "arp", "user-manager", "user-session-manager"]
# system software of HostNode (installed by the node type itself): never listed again in the scenario except in `dup`
HOST_SYSTEM = {"dns-client", "ntp-client", "web-browser", "nmap", "terminal", "user-manager", "user-session-manager", "arp",
               "icmp"}
SVC_EVENTS = ["start", "stop", "pause", "resume", "restart", "disable", "enable", "fix", "scan", "tick", "shutdown", "startup",
              "payload"]
APP_EVENTS = ["run", "close", "fix", "scan", "execute", "install", "uninstall", "tick", "shutdown", "startup", "payload"]
SVC_VERBS = set(L.SERVICE_ACCEPT)
APP_REQ_VERBS = {"close", "fix", "scan", "execute", "install", "uninstall"}
NODE_EVENTS = {"tick", "shutdown", "startup"}

_am = None


def form(action, **opts):
    global _am
    from primaite.game.agent.actions import ActionManager

    if _am is None:
        _am = ActionManager()
    return _am.form_request(action, opts)


# ------------------------------------------------------------------------------------------------ scenario
def sw_cfg(t, extra=None):
    o = {}
    if t == "dns-server":
        o = {"domain_mapping": {"x.com": TIP}}
    elif t in ("database-client",):
        o = {"db_server_ip": SIP}
    if extra:
        o.update(extra)
    return {"type": t, "options": o} if o else {"type": t}


def scenario(services=(), apps=(), power=(0, 0), listener=None, third=False, app_opts=None):
    """peer P -- sw1 -- T (node under test) [-- S (servers for T's clients)]"""
    n = corpus.Net()
    z = dict(start_up_duration=0, shut_down_duration=0)
    if third:
        n.switch("sw1", 4, **z)
    n.host("peer", PIP, **z, dns_server=TIP, services=[{"type": "ftp-client"}],
           applications=[{"type": "database-client", "options": {"db_server_ip": TIP}},
                         {"type": "c2-beacon", "options": {"c2_server_ip_address": TIP}}])
    t_apps = [sw_cfg(a, (app_opts or {}).get(a)) for a in apps]
    if listener:
        lname, ports = listener
        t_apps.append({"type": lname, "options": {"listen_on_ports": list(ports)}})
    n.host(HOST, TIP, kind="server", start_up_duration=power[0], shut_down_duration=power[1], dns_server=SIP if third else None,
           services=[sw_cfg(s) for s in services], applications=t_apps)
    if n.node(HOST)["dns_server"] is None:
        del n.node(HOST)["dns_server"]
    if not third:
        n.link("peer", 1, HOST, 1)  # two hosts back to back (a switch only adds build time)
    else:
        n.to_switch("sw1", "peer")
        n.to_switch("sw1", HOST)
    if third:
        n.host("S", SIP, kind="server", **z,
               services=[{"type": "database-service"}, {"type": "web-server"}, {"type": "ftp-server"}, {"type": "ntp-server"},
                         {"type": "dns-server", "options": {"domain_mapping": {"s.com": SIP}}}])
        n.to_switch("sw1", "S")
    return n.scenario()


# ------------------------------------------------------------------------------------------------ monitor
class Stop(Exception):
    pass


class Monitor:
    def __init__(self, cov, case_out, ctx, family):
        self.cov, self.case_out, self.ctx, self.family = cov, case_out, ctx, family
        self.out = []  # violations of THIS word (a word stops at its first violating event)
        self.log = []
        self.armed = False
        self.T = self.P = self.sim = None
        self.refs = {}
        self.kinds = {}
        self.power = None
        self.timing = None
        self.event = (None, None)
        self.power_edges = False
        self.install_d = None
        self.rx_stack = []
        self.t = 0
        self.writes = 0
        self.states_seen = set()
        self.completed = set()

    # ---- reporting
    def v(self, mech, msg):
        if not any(o["mech"] == mech for o in self.out):
            self.out.append(viol(mech, msg, {"ctx": self.ctx, "events": list(self.log)}))
            self.cov.hit("violations_by_mech", mech)
            if len(self.case_out) < 16 and not any(o["mech"] == mech for o in self.case_out):
                self.case_out.append(self.out[-1])

    def on_T(self, sw):
        sm = getattr(sw, "software_manager", None)
        return sm is not None and getattr(sm, "node", None) is self.T

    # ---- instrumentation
    def install(self):
        from primaite.simulator.system.applications.application import Application
        from primaite.simulator.system.core.session_manager import SessionManager
        from primaite.simulator.system.services.service import Service
        from primaite.simulator.system.software import IOSoftware

        mon = self

        def on_write(sw, field, old, new):
            if not mon.armed or old is None or old == new or not mon.on_T(sw):
                return
            kind = L.SERVICE if isinstance(sw, Service) else L.APPLICATION
            e = (old.name, new.name)
            mon.writes += 1
            mon.cov.inc("state_writes")
            mon.cov.hit("edges", f"{kind}|{e[0]}->{e[1]}")
            cur = mon.T.software_manager.software.get(sw.name)
            if cur is not sw:
                # a new object inside an install request, before it is registered (or the instance being replaced): the
                # resulting state is judged at the quiescent point, the registries by object identity
                mon.cov.hit("diag_writes_on_instance_not_registered_yet", sw.name)
                return
            verb, target = mon.event
            if verb is None:
                return
            allowed = L.allowed_writes(kind, verb, sw.name == target, mon.power_edges)
            if allowed is None:
                mon.cov.hit("diag_writes_under_unjudged_event", f"{verb}|{e[0]}->{e[1]}")
                if verb in ("install", "uninstall", "sm_uninstall"):
                    return  # writes inside one install request are implementation detail; the resulting state is judged
                if e not in L.ALL_EDGES[kind]:
                    mon.v(f"illegal-transition/{kind}/{verb}/{e[0]}->{e[1]}", f"{sw.name} on T moved {e[0]} -> {e[1]} during {verb}: "
                          f"not an edge of the documented relation at all")
                return
            if e in allowed:
                return
            if verb == "payload":
                if e[0] != R:
                    mon.v(f"nonrunning-changes-state-on-payload/{sw.name}", f"{sw.name} moved {e[0]} -> {e[1]} while a payload was delivered")
                else:
                    mon.cov.hit("diag_running_software_state_write_on_payload", f"{sw.name}|{e[0]}->{e[1]}")
                return
            if sw.name != target and verb not in NODE_EVENTS:
                mon.v(f"illegal-transition/{kind}/other-software/{verb}/{e[0]}->{e[1]}", f"{sw.name} on T moved {e[0]} -> {e[1]} during "
                      f"'{verb}' addressed to {target}")
                return
            mon.v(f"illegal-transition/{kind}/{verb}/{e[0]}->{e[1]}", f"{sw.name} on T moved {e[0]} -> {e[1]} during '{verb}' "
                  f"(allowed for this event: {sorted(allowed)})")

        probes.tap_setattr(Service, ["operating_state"], on_write)
        probes.tap_setattr(Application, ["operating_state"], on_write)

        # payload tap on every concrete receive override
        classes = set()
        for reg in (Service._registry, Application._registry):
            for cls in reg.values():
                for c in cls.__mro__:
                    if isinstance(c, type) and issubclass(c, IOSoftware) and "receive" in c.__dict__:
                        classes.add(c)

        def pre_rx(sw, *a, **k):
            if not mon.armed or not mon.on_T(sw):
                return None
            if mon.rx_stack and mon.rx_stack[-1]["sw"] is sw:
                mon.rx_stack[-1]["depth"] += 1
                return "nested"
            st = getattr(sw, "operating_state", None)
            rec = {"sw": sw, "state": st.name if st is not None else None, "depth": 1, "sends": 0}
            mon.rx_stack.append(rec)
            return rec

        def post_rx(sw, tok, res, exc, *a, **k):
            if tok is None:
                return
            if tok == "nested":
                mon.rx_stack[-1]["depth"] -= 1
                return
            rec = mon.rx_stack.pop()
            mon.cov.inc("receive_calls")
            mon.cov.hit("receive_cells", f"{sw.name}|{rec['state']}|{'handled' if res else 'declined'}")
            if rec["state"] == R:
                if res:
                    mon.cov.inc("payloads_handled_by_running_software")
                return
            mon.cov.inc("receive_calls_on_nonrunning")
            if exc is not None:
                mon.cov.hit("diag_receive_raised", f"{sw.name}|{type(exc).__name__}")
                return
            if res:
                mon.v(f"nonrunning-handles-payload/{sw.name}", f"{sw.name} on T was {rec['state']} when {type(sw).__name__}.receive was "
                      f"entered and answered {res!r} (payload handled)")
            elif rec["sends"]:
                mon.v(f"nonrunning-sends-during-receive/{sw.name}", f"{sw.name} on T was {rec['state']} and sent {rec['sends']} payload(s) from "
                      f"inside receive")

        for c in sorted(classes, key=lambda c: c.__name__):
            probes.wrap(c, "receive", pre_rx, post_rx)

        # the dispatch point in front of every receive: shows that payloads for non-running software really arrive at
        # the node's software manager (where they must be dropped) - keeps the gating monitor from starving silently
        from primaite.simulator.system.core.software_manager import SoftwareManager

        def pre_dispatch(sm, *a, **k):
            if not mon.armed or getattr(sm, "node", None) is not mon.T:
                return
            port, protocol = k.get("port"), k.get("protocol")
            payload = k.get("payload")
            tgt = sm.software.get("nmap") if payload.__class__.__name__ == "PortScanPayload" else sm.port_protocol_mapping.get((port, protocol))
            cands = [tgt] if tgt is not None else []
            cands += [x for x in sm.software.values() if port in getattr(x, "listen_on_ports", ()) and x is not tgt]
            for x in cands:
                st = getattr(x, "operating_state", None)
                if st is not None and st.name != R:
                    mon.cov.inc("payloads_dispatched_towards_nonrunning")
                    mon.cov.hit("dispatch_cells", f"{x.name}|{st.name}")

        probes.wrap(SoftwareManager, "receive_payload_from_session_manager", pre_dispatch, None)

        def pre_send(sm, *a, **k):
            if mon.armed and mon.rx_stack and getattr(sm, "node", None) is mon.T:
                mon.rx_stack[-1]["sends"] += 1

        probes.wrap(SessionManager, "receive_payload_from_software_manager", pre_send, None)

        def pre_install(app, *a, **k):
            if mon.armed and mon.install_d is not None and mon.on_T(app):
                app.install_duration = mon.install_d

        probes.wrap(Application, "install", pre_install, None)

    # ---- set-up
    def attach(self, game, restart_d, install_d, timing):
        from primaite.simulator.system.services.service import Service

        self.sim = game.simulation
        net = self.sim.network
        self.T, self.P = net.get_node_by_hostname(HOST), net.get_node_by_hostname("peer")
        self.S = net.get_node_by_hostname("S")
        self.timing = timing
        self.install_d = install_d
        self.power = L.RefPower(self.T.config.start_up_duration, self.T.config.shut_down_duration, self.T.operating_state.name)
        if self.power.state != "ON":
            raise RuntimeError("T not ON after build")
        self.sim.pre_timestep(0)
        self.P.ping(TIP, pings=1)  # warm ARP
        if self.S is not None:
            self.T.ping(SIP, pings=1)
        for name, sw in self.T.software_manager.software.items():
            kind = L.SERVICE if isinstance(sw, Service) else L.APPLICATION
            self.kinds[name] = kind
            self.refs[name] = L.RefSoftware(name, kind, sw.operating_state.name, timing[kind])
            if kind == L.SERVICE:
                sw.restart_duration = restart_d
        for a in APP_TYPES:
            if a not in self.refs:
                self.kinds[a] = L.APPLICATION
                self.refs[a] = L.RefSoftware(a, L.APPLICATION, L.C, timing[L.APPLICATION], present=False)
        self.armed = True

    def cur(self, name):
        return self.T.software_manager.software.get(name)

    # ---- inbound payloads from the peer
    def raw(self, payload, port, proto="tcp"):
        return self.P.software_manager.send_payload_to_session_manager(payload=payload, dest_ip_address=IPv4Address(TIP),
                                                                       dest_port=port, ip_protocol=proto)

    def deliver(self, target):
        P = self.P
        sw = P.software_manager.software
        if target == "database-service":
            c = sw["database-client"]
            conn = c.get_new_connection()
            ok = bool(conn and conn.query("SELECT"))
            if conn:
                conn.disconnect()
            return ok
        if target == "web-server":
            return bool(sw["web-browser"].get_webpage(f"http://{TIP}/"))
        if target == "dns-server":
            sw["dns-client"].dns_cache.pop("x.com", None)
            return bool(sw["dns-client"].check_domain_exists("x.com"))
        if target == "ftp-server":
            if not P.file_system.get_file(folder_name="up", file_name="f.txt"):
                P.file_system.create_file("f.txt", folder_name="up")
            return bool(sw["ftp-client"].send_file(dest_ip_address=IPv4Address(TIP), src_folder_name="up", src_file_name="f.txt",
                                                   dest_folder_name="in", dest_file_name="f.txt"))
        if target == "ntp-server":
            c = sw["ntp-client"]
            c.config.ntp_server_ip = IPv4Address(TIP)
            c.time = None
            try:
                c.request_time()
            finally:
                c.config.ntp_server_ip = None
            return c.time is not None
        if target == "terminal":
            conn = sw["terminal"].login(username="admin", password="admin", ip_address=IPv4Address(TIP))
            return conn is not None
        if target in ("icmp", "arp", "data-manipulation-bot", "ransomware-script", "user-manager", "user-session-manager"):
            if target == "arp":
                P.software_manager.arp.clear()
            return bool(P.ping(TIP, pings=1))
        if target == "nmap":
            from primaite.simulator.system.applications.nmap import PortScanPayload

            return bool(self.raw(PortScanPayload(ip_address=IPv4Address(TIP), port=22, protocol="tcp", request=True), 22))
        if target == "c2-server":
            b = sw["c2-beacon"]
            return bool(b.establish())
        if target == "dns-client":
            from primaite.simulator.network.protocols.dns import DNSPacket, DNSReply, DNSRequest

            return bool(self.raw(DNSPacket(dns_request=DNSRequest(domain_name_request="y.com"),
                                           dns_reply=DNSReply(domain_name_ip_address=IPv4Address(PIP))), 53))
        if target == "ntp-client":
            from datetime import datetime

            from primaite.simulator.network.protocols.ntp import NTPPacket

            return bool(self.raw(NTPPacket().generate_reply(datetime.now()), 123, "udp"))
        if target == "ftp-client":
            from primaite.simulator.network.protocols.ftp import FTPCommand, FTPPacket, FTPStatusCode

            return bool(self.raw(FTPPacket(ftp_command=FTPCommand.PORT, ftp_command_args=21, status_code=FTPStatusCode.OK), 21))
        if target in ("database-client", "dos-bot"):
            return bool(self.raw({"type": "sql", "uuid": "pv", "status_code": 200, "data": {}}, 5432))
        if target == "web-browser":
            from primaite.simulator.network.protocols.http import HttpResponsePacket, HttpStatusCode

            return bool(self.raw(HttpResponsePacket(status_code=HttpStatusCode.OK), 80))
        if target == "c2-beacon":
            from primaite.simulator.network.protocols.masquerade import C2Packet
            from primaite.simulator.system.applications.red_applications.c2.abstract_c2 import C2Payload

            # an INPUT packet whose command the beacon does not know: the beacon answers it with a failure OUTPUT
            return bool(self.raw(C2Packet(masquerade_protocol="tcp", masquerade_port=80, keep_alive_frequency=5,
                                          payload_type=C2Payload.INPUT, command=None), 80))
        raise ValueError(target)

    # ---- one event
    def request(self, req):
        try:
            resp = self.sim.apply_request(req)
            return resp.status, resp
        except Exception as e:  # raising handlers are C05's business
            self.cov.hit("diag_request_raised", f"{req[3:]}|{type(e).__name__}")
            return f"raised {type(e).__name__}", None

    def step(self, verb, target, via="request"):
        T = self.T
        node_on = self.power.state == "ON"
        self.event = (verb, target)
        self.power_edges = False
        entry = f"{verb}:{target}" if target and verb not in NODE_EVENTS else verb
        self.log.append(entry)
        try:
            if verb == "tick":
                self.t += 1
                direction = self.power.tick()
                self.power_edges = direction is not None
                try:
                    self.sim.apply_timestep(self.t)
                except Exception as e:  # a raising tick is robustness business (C05), and nothing after it can be judged
                    self.cov.hit("diag_tick_raised", type(e).__name__)
                    raise Stop()
                self.completed = set()
                for r in self.refs.values():
                    if direction:
                        r.power(direction)
                    if r.tick(self.power.state == "ON"):
                        self.completed.add(r.name)
                self.event = (None, None)
                self.sim.pre_timestep(self.t)
            elif verb in ("shutdown", "startup"):
                acc, done = self.power.request(verb)
                self.power_edges = done is not None
                req = form(f"node-{verb}", node_name=HOST) if via == "action" else ["network", "node", HOST, verb]
                status, _ = self.request(req)
                self.log[-1] = f"{entry}={status}"
                if acc:
                    for r in self.refs.values():
                        r.power_requested()
                        if done:
                            r.power(done)
                if acc != (status == "success"):
                    self.cov.hit("diag_power_request_answer_differs_from_model", f"{verb}|{status}")
            elif verb == "payload":
                ref = self.refs[target]
                nonrun = not ref.present or ref.state != R
                self.cov.inc("payload_ops")
                before = self.cov.d.get("receive_calls_on_nonrunning", 0)
                try:
                    ok = self.deliver(target)
                except Exception as e:  # a raising delivery is hostile-input business (C05); not judged here
                    self.cov.hit("diag_delivery_raised", f"{target}|{type(e).__name__}")
                    ok = None
                self.log[-1] = f"{entry}={ok}"
                if nonrun:
                    self.cov.inc("payload_ops_while_nonrunning")
                    self.cov.hit("payload_cells", f"{target}|{ref.state if ref.present else 'ABSENT'}|client-ok={ok}")
                    if self.cov.d.get("receive_calls_on_nonrunning", 0) > before:
                        self.cov.inc("payload_ops_reaching_nonrunning_receive")
                else:
                    self.cov.hit("payload_cells", f"{target}|RUNNING|client-ok={ok}")
            elif verb == "run":
                obj = self.cur(target)
                if obj is not None:
                    try:
                        obj.run()
                    except Exception as e:
                        self.cov.hit("diag_run_raised", f"{target}|{type(e).__name__}")
                        raise Stop()
                self.refs[target].run(node_on)
            elif verb == "sm_uninstall":
                ref = self.refs[target]
                try:
                    T.software_manager.uninstall(target)
                except Exception as e:
                    self.cov.hit("diag_request_raised", f"sm_uninstall {target}|{type(e).__name__}")
                    self.log[-1] = f"{entry}=raised {type(e).__name__}"
                ref.present = False
                self.cov.inc("uninstalls")
            elif verb in SVC_VERBS and self.kinds[target] == L.SERVICE:
                self.lifecycle_request(verb, target, via, node_on)
            elif verb in APP_REQ_VERBS and self.kinds[target] == L.APPLICATION:
                self.lifecycle_request(verb, target, via, node_on)
            else:
                raise ValueError((verb, target))
        finally:
            self.event = (None, None)
            self.power_edges = False
            self.rx_stack.clear()
        if self.out:
            raise Stop()  # consequences of a violating event are not reported as further mechanisms
        self.check(verb, target)

    def lifecycle_request(self, verb, target, via, node_on):
        kind = self.kinds[target]
        ref = self.refs[target]
        obj = self.cur(target)
        pre = (ref.state if ref.present else "ABSENT") if node_on else "NODE-" + self.power.state
        health = obj.health_state_actual.name if obj is not None else None
        dur = None
        if verb == "restart" and obj is not None:
            dur = obj.restart_duration
        if verb == "install":
            dur = self.install_d
        expected = ref.request(verb, node_on, duration=dur, health=health)
        if kind == L.SERVICE:
            req = (form(f"node-service-{verb}", node_name=HOST, service_name=target) if via == "action"
                   else ["network", "node", HOST, "service", target, verb])
        elif verb in ("install", "uninstall"):
            act = "node-application-install" if verb == "install" else "node-application-remove"
            req = (form(act, node_name=HOST, application_name=target) if via == "action"
                   else ["network", "node", HOST, "software_manager", "application", verb, target])
        else:
            req = (form(f"node-application-{verb}", node_name=HOST, application_name=target) if via == "action"
                   else ["network", "node", HOST, "application", target, verb])
        status, _ = self.request(req)
        self.log[-1] += f"={status}"
        self.cov.hit("cells", f"{target}|{pre}|{verb}|{status}")
        self.cov.inc("requests_sent")
        if verb == "install" and pre == "ABSENT" and status == "success":
            self.cov.inc("installs")
        if verb == "uninstall" and pre not in ("ABSENT",) and status == "success":
            self.cov.inc("uninstalls")
        if expected is None:
            self.cov.hit("diag_request_answer_not_judged", f"{kind}|{verb}|{pre}|{status}")
            return
        self.cov.inc("requests_judged")
        if status.startswith("raised"):
            if expected:
                self.v(f"request-raises-in-documented-state/{kind}/{verb}@{pre}", f"{req} raised ({status}) while {target} was {pre}")
            return
        if expected and status == "unreachable" and obj is not None and node_on:
            self.v(f"lifecycle-route-missing/{kind}/{target}", f"{req} answered unreachable while {target} was {pre}: {type(obj).__name__} has no "
                   f"'{verb}' request although the documentation accepts {verb} in this state")
        elif expected and status != "success":
            self.v(f"request-refused-in-documented-state/{kind}/{verb}@{pre}", f"{req} answered {status} while {target} was {pre} "
                   f"(health {health}); the documentation accepts {verb} in this state")
        if not expected and status == "success":
            self.v(f"request-accepted-in-undocumented-state/{kind}/{verb}@{pre}", f"{req} answered success while {target} was {pre}; "
                   f"documented source states: {sorted((L.SERVICE_ACCEPT if kind == L.SERVICE else L.APPLICATION_ACCEPT).get(verb) or ['any (node on)'])}")

    # ---- oracles at the quiescent point after an event
    def check(self, verb, target):
        T = self.T
        sm = T.software_manager
        if verb == "arm":
            self.log.append("arm")
        if T.operating_state.name != self.power.state:
            # node power is C12's property; without an agreed power state nothing below can be judged
            self.cov.hit("diag_power_model_mismatch", f"{self.power.state}|{T.operating_state.name}")
            raise Stop()
        # 1. lifecycle FSM conformance
        for name, ref in self.refs.items():
            obj = sm.software.get(name)
            self.cov.inc("fsm_compares")
            kind = self.kinds[name]
            if obj is None:
                if ref.present:
                    self.v(f"software-vanished/{kind}@{verb}", f"{name} is no longer in software_manager.software after {self.log[-1]}")
                continue
            if not ref.present:
                self.v(f"software-still-installed/{kind}@{verb}", f"{name} still in software_manager.software after {self.log[-1]}")
                continue
            real = obj.operating_state.name
            if name == target or verb in NODE_EVENTS:
                self.states_seen.add((name, real))
            acc = ref.acceptable()
            if real in acc:
                if ref.free and real != ref.state:
                    self.cov.inc("diag_timer_disturbed_by_power_adopted")
                if verb == "tick" and name in self.completed and real == R:
                    self.cov.inc("timer_completions_on_expected_tick")
                    self.cov.hit("timer_cells", f"{'restart' if kind == L.SERVICE else 'install'}|d={self.dur_of(obj, kind)}")
                ref.adopt(real)
                continue
            if name == target and verb in L.NOT_JUDGED_VERBS and (ref.state, real) in L.ALL_EDGES[kind]:
                self.cov.hit("diag_state_change_under_unjudged_verb", f"{name}|{verb}|{ref.state}->{real}")
                ref.adopt(real)
                continue
            timed = L.TIMED[kind]
            mechn = "restart" if kind == L.SERVICE else "install"
            if verb == "tick" and ref.state == R and real == timed:
                self.v(f"timing/{mechn}/late-or-never/{name}", f"{name}: {mechn} requested with duration {self.dur_of(obj, kind)} not complete on tick "
                       f"k={self.timing[kind].k(self.dur_of(obj, kind))} after the request (calibrated offset {self.timing[kind].offset}); events {self.log}")
            elif verb == "tick" and ref.state == timed and real == R:
                self.v(f"timing/{mechn}/early/{name}", f"{name}: {mechn} with duration {self.dur_of(obj, kind)} complete after {ref.elapsed} tick(s), expected "
                       f"k={ref.due} (calibrated offset {self.timing[kind].offset}); events {self.log}")
            else:
                self.v(f"state-mismatch/{kind}/{verb}/{ref.state}-expected-{real}-observed", f"{name} is {real} after {self.log[-1]}, "
                       f"reference FSM says {sorted(acc)}; events {self.log}")
        # 2. ports
        self.check_ports(verb)
        # 3. registries
        self.check_registries(verb, with_state=verb in ("install", "uninstall", "sm_uninstall"))
        if self.out:
            raise Stop()

    @staticmethod
    def dur_of(obj, kind):
        return obj.restart_duration if kind == L.SERVICE else obj.install_duration

    def all_instances(self):
        T = self.T
        seen, out = set(), []
        for s in list(T.software_manager.software.values()) + list(T.services.values()) + list(T.applications.values()):
            if id(s) not in seen:
                seen.add(id(s))
                out.append(s)
        return out

    def check_ports(self, verb):
        sm = self.T.software_manager
        inst = self.all_instances()
        owned = set()
        owned_pp = set()
        for s in inst:
            if s.operating_state.name == R:
                owned.add(int(s.port))
                owned |= {int(p) for p in (s.listen_on_ports or ())}
                owned_pp.add((int(s.port), s.protocol))
        self.cov.inc("open_port_checks")
        for p in sm.get_open_ports():
            if int(p) != 0 and int(p) not in owned:
                who = [s.name + ":" + s.operating_state.name for s in inst if int(s.port) == int(p)]
                self.v("port-open-without-running-software/get_open_ports", f"get_open_ports() lists {int(p)} after {self.log[-1]} but no RUNNING "
                       f"software on T owns or listens on it (software with that port: {who})")
        opened = {int(p) for p in sm.get_open_ports()}
        for s in sm.software.values():
            if s.operating_state.name == R and int(s.port) != 0 and int(s.port) not in opened and self.T.operating_state.name == "ON":
                self.cov.hit("diag_running_software_port_not_open", s.name)  # not in the statement: shadowed (port, protocol) key
        for s in sm.software.values():
            if s.operating_state.name != R and int(s.port) != 0:
                self.cov.inc("nonrunning_port_evals")
                if sm.check_port_is_open(s.port, s.protocol) and (int(s.port), s.protocol) not in owned_pp:
                    self.v("port-open-without-running-software/check_port_is_open", f"check_port_is_open({int(s.port)},{s.protocol}) is true after "
                           f"{self.log[-1]} while {s.name} is {s.operating_state.name} and no RUNNING software has that port")

    def mapping_entries(self):
        """(key, software) pairs of port_protocol_mapping (tolerates a container of software per key)"""
        for key, val in list(self.T.software_manager.port_protocol_mapping.items()):
            for sw in (val if isinstance(val, (list, tuple, set, frozenset)) else [val]):
                yield key, sw

    def check_registries(self, verb, with_state=False):
        from primaite.simulator.system.services.service import Service

        T = self.T
        sm = T.software_manager
        self.cov.inc("registry_checks")
        at = verb if verb in ("install", "uninstall", "sm_uninstall") else "other"
        for label, isvc in (("services", True), ("applications", False)):
            in_sw = {n for n, s in sm.software.items() if isinstance(s, Service) == isvc}
            in_node = {s.name for s in (T.services if isvc else T.applications).values()}
            routes = set((T._service_request_manager if isvc else T._application_request_manager).request_types)
            views = {"software": in_sw, "node": in_node, "routes": routes}
            if with_state:
                views["state"] = set(T.describe_state()[label])
                self.cov.inc("describe_state_checks")
            union = set().union(*views.values())
            if any(v != union for v in views.values()):
                missing = {a: sorted(union - v) for a, v in views.items() if v != union}
                self.v(f"registry-disagreement/{label}@{at}", f"after {self.log[-1]}: {label} listed by name differ; missing from "
                       f"each view: {missing} (views: software_manager.software, node.{label}, request routes"
                       f"{', describe_state' if with_state else ''})")
                continue
            # same names everywhere: the views must also hold the same OBJECTS (one instance per name)
            coll = (T.services if isvc else T.applications)
            rm = (T._service_request_manager if isvc else T._application_request_manager)
            names = [x.name for x in coll.values()]
            if len(names) != len(set(names)):
                dups = sorted({x for x in names if names.count(x) > 1})
                self.v(f"registry-duplicate-instance/{label}@{at}", f"after {self.log[-1]}: node.{label} holds more than one instance of {dups}")
                continue
            for x in coll.values():
                if sm.software.get(x.name) is not x:
                    self.v(f"registry-instance-mismatch/{label}@{at}", f"after {self.log[-1]}: node.{label} holds an instance of {x.name} that is "
                           f"not software_manager.software[{x.name!r}]")
            for n in in_sw:
                if rm.request_types[n].func is not sm.software[n]._request_manager:
                    self.v(f"registry-stale-route/{label}@{at}", f"after {self.log[-1]}: the request route '{n}' does not lead to the installed "
                           f"instance of {n}")
        # port map: no stale entry; every installed software with a real port is reachable through its key
        for key, s in self.mapping_entries():
            if sm.software.get(s.name) is not s:
                self.v(f"registry-stale-port-mapping@{at}", f"after {self.log[-1]}: port_protocol_mapping[{key}] is {s.name} which is not "
                       f"the installed instance of that name ({'absent' if s.name not in sm.software else 'other object'})")
        for s in sm.software.values():
            if int(s.port) == 0:
                continue
            key = (s.port, s.protocol)
            sharers = [x for x in sm.software.values() if (x.port, x.protocol) == key]
            mapped = [m for k, m in self.mapping_entries() if k == key]
            if not any(m is x for m in mapped for x in sharers):
                self.v(f"port-mapping-lost@{at}", f"after {self.log[-1]}: installed {s.name} ({s.operating_state.name}) has port "
                       f"{key} but port_protocol_mapping has no entry for it (software with that key: {[x.name for x in sharers]})")


# ------------------------------------------------------------------------------------------------ running words
_TIMING_CACHE = {}


def calibrate(cov, out):
    """undisturbed straight-line runs: offset of restart and install (k = d + offset, d = 2)."""
    if "t" in _TIMING_CACHE:
        return _TIMING_CACHE["t"]
    probes.uninstall_all()
    game = corpus.build_game(scenario(services=["ftp-server"], apps=[]))
    sim = game.simulation
    T = sim.network.get_node_by_hostname(HOST)
    res = {}
    d = 2
    svc = T.software_manager.software["ftp-server"]
    svc.restart_duration = d
    r = sim.apply_request(["network", "node", HOST, "service", "ftp-server", "restart"])
    k = None
    t = 0
    for i in range(1, d + 4):
        t += 1
        sim.apply_timestep(t)
        sim.pre_timestep(t)
        if svc.operating_state.name == R:
            k = i
            break
    res[L.SERVICE] = (d, k, r.status)
    from primaite.simulator.system.applications.application import Application

    orig = Application.install

    def patched(self, *a, **kw):
        self.install_duration = d
        return orig(self, *a, **kw)

    Application.install = patched
    try:
        r = sim.apply_request(["network", "node", HOST, "software_manager", "application", "install", "ransomware-script"])
    finally:
        Application.install = orig
    app = T.software_manager.software.get("ransomware-script")
    k = None
    for i in range(1, d + 4):
        t += 1
        sim.apply_timestep(t)
        sim.pre_timestep(t)
        if app is not None and app.operating_state.name == R:
            k = i
            break
    res[L.APPLICATION] = (d, k, r.status)
    timing = {}
    for kind, (d, k, status) in res.items():
        mechn = "restart" if kind == L.SERVICE else "install"
        off = L.Timing.offset_from_observation(d, k)
        cov.hit("calibration", f"{mechn}|d={d}|k={k}")
        if off is None:
            out.append(viol(f"timing/{mechn}/undisturbed-run-outside-documented-window",
                            f"straight-line {mechn} with duration {d} (request answered {status}) completed on tick {k}; documented readings "
                            f"allow {d} or {d + 1}", {"d": d, "k": k}))
            off = 1 if kind == L.SERVICE else 0
        timing[kind] = L.Timing(off)
    _TIMING_CACHE["t"] = timing
    return timing


def run_word(spec_sc, words_iter, cov, out, ctx, family, restart_d=1, install_d=2, auto_payload=None, drain=True, via="request"):
    """one fresh world, one word: list of (verb, target)."""
    timing = calibrate(cov, out)
    probes.uninstall_all()
    mon = Monitor(cov, out, ctx, family)
    mon.install()
    try:
        game = corpus.build_game(spec_sc)
        mon.attach(game, restart_d, install_d, timing)
        try:
            mon.check("arm", None)
            for (verb, target) in words_iter:
                mon.step(verb, target, via)
                if auto_payload and verb != "payload":
                    mon.step("payload", auto_payload, via)
            if drain:
                # let every running timer reach its expected completion tick, so each word also judges timing
                for _ in range(6):
                    if not any(r.present and r.state == L.TIMED[r.kind] for r in mon.refs.values()) or mon.power.state != "ON":
                        break
                    mon.step("tick", None, via)
                mon.check_registries("final", with_state=True)
        except Stop:
            pass
        return mon
    finally:
        probes.uninstall_all()


# ------------------------------------------------------------------------------------------------ families
def listener_for(t):
    lname = "data-manipulation-bot" if t == "ransomware-script" else "ransomware-script"
    ports = sorted({53, 80, 5432, 21, 123, 22})
    return (lname, ports)


def target_scenario(t, listener=False, power=(0, 0)):
    services = [t] if t in SERVICE_TYPES and t not in HOST_SYSTEM else []
    apps = [t] if t in APP_TYPES and t not in HOST_SYSTEM else []
    return scenario(services=services, apps=apps, power=power, listener=listener_for(t) if listener else None)


MULTI_SERVICES = ["dns-server", "database-service", "web-server", "ftp-server", "ntp-server"]
MULTI_APPS = ["data-manipulation-bot", "ransomware-script", "c2-beacon"]
# install/uninstall targets of the random family: applications that share their port with nothing else on that host (port-sharing
# has its own family `shared`) and whose own family does not already exhibit a known finding that would cut the random words short
MULTI_INSTALLABLE = ["ransomware-script", "c2-beacon", "c2-server", "nmap"]
MULTI_PAYLOAD_TARGETS = ["dns-server", "database-service", "web-server", "ftp-server", "ntp-server", "terminal"]


class Check:
    pid = "C13"
    level = "exploration"
    rule = ("case families on a 2-3 host network (peer P, node under test T): svc-<type>: every word of length DEPTH (quick 3, thorough 4) over {start, stop, "
            "pause, resume, restart, disable, enable, fix, scan, tick, node-shutdown, node-startup, inbound payload from P's matching "
            "client} for each of the 9 shipped service types x restart_duration in {0,1,2,3} (durations other than 1: length-3 words containing "
            "restart), requests alternately raw / formed by the node-service-* action classes, followed by a drain of ticks; app-<type>: "
            "same over {run, close, fix, scan, execute, install, uninstall, tick, shutdown, startup, payload} for the 8 application types x "
            "install_duration in {0,1,2,3}; gate-<type>: length-2 (thorough 3) words with a payload offered after every event while another running "
            "application on T listens on the target's port (so frames reach the target's receive); sys-<icmp|arp|user-manager|user-session-manager>: the same for the system services (no listener); conn-*: uninstall / "
            "re-install with open connections (db client, terminal sessions, dos-bot); dup-*: system software listed again in the scenario; "
            "shared-*: install/uninstall of an application whose port another installed software uses; multi-rand-*: random words of length "
            "30 over all software of a host with 5 services + 3 applications + system software, random restart/install durations in {0..3} and "
            "node power durations in {(0,0),(1,1),(2,1)} (install/uninstall targets and payload targets of this family exclude software whose "
            "own family already exhibits a finding, so that the random words are not cut short). "
            "Non-trivial word: >=1 operating-state write on T and >=2 distinct (software,state) pairs observed; distinct by (family, target, "
            "durations, word).")
    assumptions = [
        "accepted source states are those of docs/source/action_masking.rst; 'accepted' = answered success, 'refused' = failure/unreachable",
        "fix is judged 'accepted' only when the health state is GOOD or COMPROMISED (otherwise the answer is not judged); the answer of "
        "execute, of uninstalling an absent application, and what fix/scan/execute do to the operating state are not judged (docs silent)",
        "restart/install complete on tick max(1, d+offset) with offset in {0,1} calibrated once per process on an undisturbed run (d=2); "
        "a node power event during a restart/install makes the completion tick not judged",
        "registries are compared by software name and then by object identity (one instance per name; route -> that instance's request "
        "manager); port_protocol_mapping holds one entry per (port, protocol): judged are stale entries and installed software "
        "(port != 0) whose key maps to nothing installed with that key",
        "a port is 'open without running software' only if no RUNNING software on the node owns or listens on that port number; port 0 is not a port",
        "handled payload = receive() returned a true value or sent a payload from inside receive() while the software was not RUNNING at entry",
    ]
    min_monitor = {"fsm_compares": 400000, "state_writes": 20000, "requests_judged": 15000, "payload_ops_while_nonrunning": 1000,
                   "payloads_dispatched_towards_nonrunning": 200, "registry_checks": 30000, "describe_state_checks": 10000, "installs": 200,
                   "uninstalls": 500, "timer_completions_on_expected_tick": 1500, "open_port_checks": 30000, "nonrunning_port_evals": 20000}
    case_timeout = {"quick": 1500, "thorough": 5400}

    # ---- case generation
    def cases(self, tier, seed):
        specs = []
        depth = 3 if tier == "quick" else 4
        for t in SERVICE_TYPES:
            for first in range(len(SVC_EVENTS)):
                specs.append({"name": f"svc-{t}-{SVC_EVENTS[first]}", "family": "svc", "target": t, "first": first, "depth": depth})
        for t in APP_TYPES:
            for first in range(len(APP_EVENTS)):
                specs.append({"name": f"app-{t}-{APP_EVENTS[first]}", "family": "app", "target": t, "first": first, "depth": depth})
        for t in SERVICE_TYPES + APP_TYPES:
            specs.append({"name": f"gate-{t}", "family": "gate", "target": t, "depth": 2 if tier == "quick" else 3})
        for t in SYS_SERVICE_TYPES:
            specs.append({"name": f"sys-{t}", "family": "sys", "target": t, "depth": 2 if tier == "quick" else 3})
        for k in ("dbclient", "terminal", "dosbot"):
            specs.append({"name": f"conn-{k}", "family": "conn", "which": k})
        for t in ("dns-client", "ntp-client", "web-browser", "nmap", "terminal", "ftp-client"):
            specs.append({"name": f"dup-{t}", "family": "dup", "target": t})
        for t in ("dos-bot", "database-client", "web-browser"):
            specs.append({"name": f"shared-{t}", "family": "shared", "target": t})
        for s in range(16 if tier == "quick" else 64):
            specs.append({"name": f"multi-rand-{seed * 1000 + s}", "family": "multi", "seed": seed * 1000 + s,
                          "n": 25 if tier == "quick" else 120, "len": 30})
        return specs

    # ---- execution
    def run_case(self, spec):
        cov, out = Cov(), []
        words = set()
        nontriv = 0
        fam = spec["family"]

        def account(mon, key):
            nonlocal nontriv
            cov.inc("sequences")
            if mon is not None and mon.writes >= 1 and len(mon.states_seen) >= 2:
                nontriv += 1
                words.add(digest(key))

        if fam in ("svc", "app"):
            t = spec["target"]
            alpha = SVC_EVENTS if fam == "svc" else APP_EVENTS
            timed_verb = "restart" if fam == "svc" else "install"
            base_d = 1 if fam == "svc" else 2
            sc = target_scenario(t)
            i = 0
            for d in (base_d, 0, 3, 2 if fam == "svc" else 1):
                depth = spec["depth"] if d == base_d else 3
                for tail in itertools.product(alpha, repeat=depth - 1):
                    evs = [alpha[spec["first"]]] + list(tail)
                    if d != base_d and timed_verb not in evs:
                        continue
                    i += 1
                    via = "action" if i % 2 else "request"
                    word = [(e, None if e in NODE_EVENTS else t) for e in evs]
                    kw = {"restart_d": d} if fam == "svc" else {"install_d": d}
                    mon = run_word(sc, word, cov, out, {"family": fam, "target": t, "d": d, "events": evs, "via": via}, fam, via=via, **kw)
                    account(mon, [fam, t, d, evs])
        elif fam in ("gate", "sys"):
            t = spec["target"]
            alpha = SVC_EVENTS if t in SERVICE_TYPES + SYS_SERVICE_TYPES else APP_EVENTS
            alpha = [e for e in alpha if e != "payload"]
            sc = target_scenario(t, listener=(fam == "gate"))
            i = 0
            for evs in itertools.product(alpha, repeat=spec["depth"]):
                i += 1
                via = "action" if i % 2 else "request"
                word = [(e, None if e in NODE_EVENTS else t) for e in evs]
                mon = run_word(sc, word, cov, out, {"family": fam, "target": t, "events": list(evs), "via": via, "payload_after_every_event": True},
                               fam, auto_payload=t, via=via)
                account(mon, [fam, t, list(evs)])
        elif fam == "conn":
            self.run_conn(spec, cov, out, account)
        elif fam == "dup":
            self.run_dup(spec, cov, out, account)
        elif fam == "shared":
            self.run_shared(spec, cov, out, account)
        elif fam == "multi":
            rnd = random.Random(spec["seed"])
            for k in range(spec["n"]):
                power = rnd.choice([(0, 0), (0, 0), (1, 1), (2, 1)])
                rd, idur = rnd.choice([0, 1, 2, 3]), rnd.choice([0, 1, 2, 3])
                sc = scenario(services=MULTI_SERVICES, apps=MULTI_APPS, power=power)
                svc_t = MULTI_SERVICES + ["dns-client", "ntp-client", "terminal", "ftp-client"]
                app_t = MULTI_APPS + ["c2-server", "nmap", "web-browser"]
                word = []
                for _ in range(spec["len"]):
                    x = rnd.random()
                    if x < 0.22:
                        word.append(("tick", None))
                    elif x < 0.30:
                        word.append((rnd.choice(["shutdown", "startup"]), None))
                    elif x < 0.65:
                        ev, tt = rnd.choice([e for e in SVC_EVENTS if e not in NODE_EVENTS]), rnd.choice(svc_t)
                        if ev == "payload" and tt not in MULTI_PAYLOAD_TARGETS:
                            tt = rnd.choice(MULTI_PAYLOAD_TARGETS)
                        word.append((ev, tt))
                    else:
                        tt = rnd.choice(app_t)
                        ev = rnd.choice([e for e in APP_EVENTS if e not in NODE_EVENTS])
                        if ev in ("install", "uninstall") and tt not in MULTI_INSTALLABLE:
                            ev = "close"
                        if ev == "payload":
                            ev = "scan"
                        word.append((ev, tt))
                via = rnd.choice(["action", "request"])
                mon = run_word(sc, word, cov, out, {"family": fam, "seed": spec["seed"], "k": k, "power": power, "restart_d": rd,
                                                    "install_d": idur, "via": via}, fam, restart_d=rd, install_d=idur, via=via)
                account(mon, [fam, spec["seed"], k])
        cov.inc("nontrivial_sequences", nontriv)
        cov.d["words"] = sorted(words)[:3000]
        return {"violations": out, "cov": cov.d, "nontrivial": nontriv > 0, "digest": digest(spec),
                "sample": {"case": spec, "sequences": cov.d.get("sequences"), "nontrivial": nontriv}}

    # ---- scripted families
    def run_conn(self, spec, cov, out, account):
        which = spec["which"]
        for d in (0, 1, 2, 3):
            for via in ("request", "action"):
                ctx = {"family": "conn", "which": which, "install_d": d, "via": via}
                if which in ("dbclient", "dosbot"):
                    app = "database-client" if which == "dbclient" else "dos-bot"
                    sc = scenario(services=[], apps=[app], third=True, app_opts={"dos-bot": {"target_ip_address": SIP, "max_sessions": 3, "port_scan_p_of_success": 1.0, "repeat": True}})
                    for nconn in (0, 1, 3):
                        def word(mon_box, nconn=nconn, app=app):
                            yield ("tick", None)
                            mon = mon_box["mon"]
                            c = mon.cur(app)
                            if app == "database-client":
                                conns = [c.get_new_connection() for _ in range(nconn)]
                                cov.hit("conn_open_before_uninstall", f"{app}|{sum(1 for x in conns if x)}")
                            else:
                                c.run()
                                cov.hit("conn_open_before_uninstall", f"{app}|{len(c.client_connections) if hasattr(c, 'client_connections') else '?'}")
                            yield ("uninstall", app)
                            yield ("tick", None)
                            yield ("install", app)
                            yield ("payload", app)
                            for _ in range(d + 2):
                                yield ("tick", None)
                            yield ("close", app)
                            yield ("uninstall", app)
                            yield ("uninstall", app)
                            yield ("install", app)
                            yield ("install", app)
                            yield ("tick", None)
                        mon = self._run_gen(sc, word, cov, out, dict(ctx, open_connections=nconn), "conn", install_d=d, via=via)
                        account(mon, ["conn", which, d, via, nconn])
                else:
                    sc = scenario(services=[], apps=[], third=True)

                    def word(mon_box):
                        mon = mon_box["mon"]
                        yield ("tick", None)
                        term = mon.cur("terminal")
                        inbound = mon.P.software_manager.software["terminal"].login(username="admin", password="admin", ip_address=IPv4Address(TIP))
                        outbound = term.login(username="admin", password="admin", ip_address=IPv4Address(SIP))
                        cov.hit("conn_open_before_uninstall", f"terminal|in={inbound is not None}|out={outbound is not None}")
                        yield ("payload", "terminal")
                        yield ("sm_uninstall", "terminal")
                        yield ("tick", None)
                        yield ("payload", "terminal")
                        yield ("tick", None)
                    mon = self._run_gen(sc, word, cov, out, ctx, "conn", install_d=d, via=via)
                    account(mon, ["conn", which, d, via])

    def _run_gen(self, sc, gen, cov, out, ctx, family, **kw):
        box = {}
        timing = calibrate(cov, out)
        probes.uninstall_all()
        mon = Monitor(cov, out, ctx, family)
        mon.install()
        try:
            game = corpus.build_game(sc)
            mon.attach(game, kw.get("restart_d", 1), kw.get("install_d", 2), timing)
            box["mon"] = mon
            try:
                mon.check("arm", None)
                for (verb, target) in gen(box):
                    mon.step(verb, target, kw.get("via", "request"))
                mon.check_registries("final", with_state=True)
            except Stop:
                pass
            return mon
        finally:
            probes.uninstall_all()

    def run_dup(self, spec, cov, out, account):
        t = spec["target"]
        is_app = t in APP_TYPES
        services = [] if is_app else ([t] if t != "ftp-client" else ["ftp-client", "database-service"])
        sc = scenario(services=services, apps=[t] if is_app else [])
        if is_app:
            wordsets = [["close", "tick", "run"], ["uninstall", "tick"], ["uninstall", "install", "tick", "tick", "tick"], ["shutdown", "startup"],
                        ["close", "uninstall", "install", "tick", "tick", "tick", "close"], ["payload"]]
        else:
            wordsets = [["stop", "tick", "start"], ["pause", "resume"], ["restart", "tick", "tick"], ["disable", "shutdown", "startup", "enable"],
                        ["stop", "payload"], ["shutdown", "startup"]]
        for evs in wordsets:
            for via in ("request", "action"):
                word = [(e, None if e in NODE_EVENTS else t) for e in evs]
                mon = run_word(sc, word, cov, out, {"family": "dup", "target": t, "events": evs, "via": via,
                                                    "note": "system software listed again in the scenario (or auto-installed and listed)"}, "dup", via=via)
                account(mon, ["dup", t, evs, via])

    def run_shared(self, spec, cov, out, account):
        t = spec["target"]
        base = {"dos-bot": ["database-service"], "database-client": ["database-service"], "web-browser": ["web-server"]}[t]
        sc = scenario(services=base, apps=[])
        other = base[0]
        for evs in (["install", "tick", "tick", "uninstall"], ["uninstall", "install", "tick", "tick", "uninstall", "payload"],
                    ["install", "uninstall", "install", "tick", "tick"]):
            for via in ("request", "action"):
                word = []
                for e in evs:
                    if e in NODE_EVENTS:
                        word.append((e, None))
                    elif e == "payload":
                        word.append((e, other))
                    else:
                        word.append((e, t))
                mon = run_word(sc, word, cov, out, {"family": "shared", "target": t, "shares_port_with": other, "events": evs, "via": via}, "shared",
                               via=via)
                account(mon, ["shared", t, evs, via])

    def post(self, specs, results, tier, seed):
        w = set()
        for r in results:
            if r and "cov" in r:
                w |= set(r["cov"].get("words", []))
        return {"digests": sorted(w)}


CHECK = Check()
