"""C09 - observations faithfully encode the simulation's ground truth.

Monitor: independent encoder (pv.models.obs_ref) that walks the defender's observation CONFIG, fetches every source
quantity from the live simulator OBJECTS (never describe_state) and encodes it per the observation docstrings; compared
leaf-by-leaf with the real (unflattened) observation after every reset/step.
"""
from __future__ import annotations

from pv import envrun
from pv.harness import Cov, digest, viol
from pv.models import obs_ref


def leaf_kind(path):
    parts = [p for p in path.split("/") if p]
    keep = [p for p in parts if not p.isdigit() and not p.startswith(("HOST", "ROUTER", "FIREWALL")) and p not in ("NODES", "LINKS")]
    return "/".join(keep[-3:]) if keep else path


def leaves(d, path=""):
    if isinstance(d, dict):
        for k, v in d.items():
            yield from leaves(v, f"{path}/{k}")
    else:
        yield path, d


class TruthMonitor:
    def __init__(self, cov, out, ctx):
        self.cov, self.out, self.ctx = cov, out, ctx
        self.ref = None
        self.trail = []
        self.seen = {}

    def v(self, mech, msg, extra=None):
        if not any(o["mech"] == mech for o in self.out):
            self.out.append(viol(mech, msg, {"ctx": self.ctx, "last_actions": self.trail[-12:], **(extra or {})}))

    def on_env(self, env, cfg, meta):
        self.cfg = cfg if isinstance(cfg, dict) else None

    def _new_ref(self, env):
        if self.cfg is None:
            self.ref = None
            return
        name = env._agent_name
        acfg = next(a for a in self.cfg["agents"] if a["ref"] == name)
        self.ref = obs_ref.ObsRef(env.game, acfg, self.cfg["game"].get("thresholds"))

    def check(self, env, where):
        if self.ref is None:
            return
        real = env.agent.observation_manager.current_observation
        try:
            exp = self.ref.expected()
        except Exception as e:
            self.cov.hit("diag_reference_error", f"{type(e).__name__}: {str(e)[:80]}")
            return
        self.cov.inc("observations_compared")
        self.cov.inc("leaves_compared", obs_ref.count_leaves(exp))
        for p, val in leaves(real):
            k = leaf_kind(p)
            s = self.seen.setdefault(k, set())
            if len(s) < 12:
                s.add(val if isinstance(val, (int, str, bool)) else int(val))
        self._count_disabled_nic_traffic(exp)
        bad = obs_ref.compare(exp, real)
        if bad:
            path, e, g = bad
            self.v(f"leaf-mismatch/{leaf_kind(path)}", f"{where}: observation leaf {path} is {g!r}, ground truth encodes to {e!r}")

    def _count_disabled_nic_traffic(self, x):
        """state class of interest: an interface that is disabled at the end of a step in which it carried traffic / captured events"""
        if isinstance(x, dict):
            if x.get("nic_status") == 2:
                def nz(v):
                    return any(nz(w) for w in v.values()) if isinstance(v, dict) else (isinstance(v, int) and not isinstance(v, bool) and v > 0)
                if any(nz(v) for k, v in x.items() if k != "nic_status"):
                    self.cov.inc("disabled_nic_with_same_step_traffic")
            for v in x.values():
                self._count_disabled_nic_traffic(v)

    def after_reset(self, env, obs, ep):
        self.trail.append(("reset", ep))
        self._new_ref(env)
        self.check(env, f"reset ep{ep}")

    def before_step(self, env, action):
        try:
            self.trail.append((env.game.step_counter, env.agent.action_manager.action_map[action]))
        except Exception:
            self.trail.append(action)

    def after_step(self, env, action, res, t):
        self.check(env, f"step {t}")


class Check:
    pid = "C09"
    level = "exploration"
    rule = ("case = generated lan/routed/dmz scenario (observation config covering every host/router/firewall/link with padded and "
            "truncated slots, NMNE, monitored traffic, access counts, users, scan-gated or true health) or shipped UC2/UC7 x "
            "policy {power, random, adversarial, quiet} x 2 episodes; after every reset/step every leaf is compared with an "
            "independent encoding of the live objects. Non-trivial: >=30 observations compared and >=6 leaf kinds took >=2 "
            "distinct values in the run; distinct by (scenario, policy, seed).")
    assumptions = [
        "documented encoding = the observation classes' docstrings + enum definitions: enum .value; visible vs actual health by *_requires_scan; thresholds from the game config; ACL ids from the configured lists (0 empty, 1 any/unlisted); link/traffic band 0 if 0 else min(10,int(9*x/cap)+1); default encoding for missing components and for every component of a node that is not ON",
        "raw per-step counters whose encoding is undocumented (num_file_creations/deletions) are not judged here (space bound only, C02)",
        "software is resolved by name through node.software_manager.software (canonical registry)",
    ]
    min_monitor = {"observations_compared": 2000, "leaves_compared": 200000, "disabled_nic_with_same_step_traffic": 3}
    case_timeout = {"quick": 1500, "thorough": 7200}

    def cases(self, tier, seed):
        q = tier == "quick"
        specs = []
        pols = ["power", "random", "adversarial", "quiet"]
        for i, f in enumerate(["data_manipulation.yaml", "uc7_config.yaml"]):
            specs.append({"name": f"shipped-{f}", "src": ["shipped", f], "policy": pols[i], "seed": seed * 100 + i, "episodes": 2,
                          "steps": 40 if q else 300, "max_len": 40 if q else None})
        for s in range(72 if q else 360):
            sd = seed * 1000 + s
            specs.append({"name": f"gen-{sd}", "src": ["gen", {"seed": sd}], "policy": pols[s % 4], "seed": sd, "episodes": 2,
                          "steps": 40 if q else 96})
        for s in range(12 if q else 48):  # wireless-router family
            sd = seed * 1000 + 300 + s
            specs.append({"name": f"gen-wlan-{sd}", "src": ["gen", {"seed": sd, "family": "wlan"}], "policy": (pols + ["nic", "scans"])[s % 6], "seed": sd, "episodes": 2,
                          "steps": 40 if q else 96})
        # interfaces toggled by a defender that acts LAST, with traffic-related leaves observed: a NIC that carried traffic / captured
        # events earlier in the same step and is disabled at its end
        for s in range(24 if q else 96):
            sd = seed * 1000 + 500 + s
            specs.append({"name": f"gen-nic-{sd}", "src": ["gen", {"seed": sd, "knobs": {"defender_position": "last", "include_nmne": True, "capture_nmne": True}}],
                          "policy": "nic", "seed": sd, "episodes": 2, "steps": 60 if q else 120})
        specs.append({"name": "shipped-uc2-nic", "src": ["shipped", "data_manipulation.yaml"], "policy": "nic", "seed": seed * 100 + 9, "episodes": 2,
                      "steps": 80 if q else 300, "max_len": 80 if q else None})
        for s in range(16 if q else 64):  # overlapping timed scans / restores on one host, health visible only through scans
            sd = seed * 1000 + 700 + s
            specs.append({"name": f"gen-scans-{sd}", "src": ["gen", {"seed": sd, "knobs": {"requires_scan": True, "defender_position": "last"}}], "policy": "scans",
                          "seed": sd, "episodes": 2, "steps": 80 if q else 160})
        for s in range(12 if q else 48):  # a folder path that changes hands (scanned, deleted by terminal command, created again), health visible only through scans
            sd = seed * 1000 + 800 + s
            specs.append({"name": f"gen-refolder-{sd}", "src": ["gen", {"seed": sd, "knobs": {"requires_scan": True, "max_actions": 1000}}], "policy": "refolder",
                          "seed": sd, "episodes": 1, "steps": 60})
        for i, pol in enumerate(["collide", "nic", "scans", "scans", "disrupt", "scans"] if q else ["collide", "nic", "scans", "disrupt", "scans", "scans"] * 4):
            specs.append({"name": f"uc2-fullmap-{pol}-{i}", "src": ["fullmap", {"file": "data_manipulation.yaml", "seed": seed * 10 + i}], "policy": pol,
                          "seed": seed * 100 + 20 + i, "episodes": 2, "steps": 100 if q else 128, "max_len": 100 if q else None})
        return specs

    def run_case(self, spec):
        cov, out = Cov(), []
        kind, name = spec["src"]
        cfg, meta = envrun.scenario_source(kind, name)
        mon = TruthMonitor(cov, out, {"scenario": spec["src"], "policy": spec["policy"], "seed": spec["seed"]})
        st = envrun.run_env(cfg, meta, [mon], spec["episodes"], spec["steps"], spec["policy"], spec["seed"], max_len=spec.get("max_len"))
        moved = {k: len(v) for k, v in mon.seen.items() if len(v) >= 2}
        for k in moved:
            cov.hit("leaf_kinds_with_2plus_values", k)
        if cov.d.get("diag_reference_error"):
            # the oracle itself failed: nothing of this case may count as 'held'
            return {"harness_error": f"reference encoder raised: {cov.d['diag_reference_error']}"}
        nontrivial = cov.d.get("observations_compared", 0) >= 30 and len(moved) >= 6
        return {"violations": out, "cov": cov.d, "nontrivial": nontrivial, "digest": digest([spec["src"], spec["policy"], spec["seed"]]),
                "sample": {"case": spec, "observations_compared": cov.d.get("observations_compared"), "moving_leaf_kinds": sorted(moved)[:12],
                           "crash": st.get("crash")}}


CHECK = Check()
