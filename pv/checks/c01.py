"""C01 - stepping/resetting the environment is total and keeps the episode contract.

Monitor: thin wrapper at the client boundary (env.reset/env.step) checked against a 10-line counter model (steps,
episodes). Exceptions are caught at the boundary and keyed by (exception type, innermost primaite frame).
"""
from __future__ import annotations

import math
import random
import traceback

from pv import corpus, envdrv, envrun
from pv.harness import Cov, digest, viol


class ContractMonitor:
    def __init__(self, cov, out, ctx):
        self.cov, self.out, self.ctx = cov, out, ctx
        self.steps = 0
        self.episodes = None
        self.last_actions = []

    def v(self, mech, msg, extra=None):
        if not any(o["mech"] == mech for o in self.out):
            self.out.append(viol(mech, msg, {"ctx": self.ctx, "last_actions": self.last_actions[-12:], **(extra or {})}))

    def on_env(self, env, cfg, meta):
        self.episodes = env.episode_counter
        self.max_len = None

    def on_exception(self, env, phase, action, exc):
        et, site = envrun.exc_site(exc)
        act = None
        if env is not None and action is not None:
            try:
                act = env.agent.action_manager.action_map[action]
            except Exception:
                act = action
        self.v(f"{phase}-raises/{et}@{site}", f"{phase} raised {et}: {str(exc)[:300]} (action {act})",
               {"traceback": traceback.format_exception(exc)[-6:], "action": act})

    def after_reset(self, env, obs, ep):
        g = env.game
        self.cov.inc("resets")
        self.steps = 0
        if env.episode_counter != self.episodes + 1:
            self.v("reset-episode-counter", f"episode counter {env.episode_counter} after reset, expected {self.episodes + 1}")
        self.episodes = env.episode_counter
        if g.step_counter != 0:
            self.v("reset-not-at-tick-0", f"step_counter {g.step_counter} right after reset")
        for name, ag in g.agents.items():
            if len(ag.history) != 0:
                self.v("reset-history-not-empty", f"agent {name} has {len(ag.history)} history items right after reset")
            rf = ag.reward_function
            if rf.total_reward != 0 or rf.current_reward != 0:
                self.v("reset-reward-not-zero", f"agent {name} total_reward {rf.total_reward} current {rf.current_reward} right after reset")
        self.hist_len = {name: 0 for name in g.agents}

    def before_step(self, env, action):
        self.step_before = env.game.step_counter
        try:
            self.last_actions.append((self.step_before, env.agent.action_manager.action_map[action]))
        except Exception:
            self.last_actions.append((self.step_before, action))

    def after_step(self, env, action, res, t):
        g = env.game
        self.cov.inc("steps_checked")
        self.steps += 1
        if not (isinstance(res, tuple) and len(res) == 5):
            self.v("step-result-shape", f"step returned {type(res)}")
            return
        obs, rew, term, trunc, info = res
        try:
            ok = isinstance(rew, (int, float)) and not isinstance(rew, bool) and math.isfinite(float(rew))
        except Exception:
            ok = False
        if not ok:
            self.v("reward-not-finite-number", f"reward {rew!r}")
        if term is not False:
            self.v("terminated-not-false", f"terminated={term!r}")
        mel = g.options.max_episode_length
        exp_trunc = self.steps >= mel
        if bool(trunc) != exp_trunc:
            self.v("truncated-wrong", f"truncated={trunc} after {self.steps} steps with max_episode_length={mel}")
        if exp_trunc:
            self.cov.inc("truncation_boundary_steps")
        if g.step_counter != self.step_before + 1:
            self.v("tick-not-advanced-by-one", f"step_counter {self.step_before} -> {g.step_counter}")
        aa = info.get("agent_actions") if isinstance(info, dict) else None
        for name, ag in g.agents.items():
            n = len(ag.history)
            if n != self.hist_len.get(name, 0) + 1:
                self.v("history-not-one-item-per-step", f"agent {name}: history length {self.hist_len.get(name, 0)} -> {n} in one step")
            self.hist_len[name] = n
            if n and ag.history[-1].timestep != self.step_before:
                self.v("history-item-wrong-timestep", f"agent {name}: last item timestep {ag.history[-1].timestep}, step was {self.step_before}")
            if n and ag.history[-1].response is None:
                self.v("history-item-without-response", f"agent {name}: last item has no response")
            if aa is None or name not in aa:
                self.v("info-agent-actions-missing", f"info['agent_actions'] lacks agent {name}")
            elif n and aa[name] is not ag.history[-1]:
                self.v("info-agent-actions-stale", f"info['agent_actions'][{name}] is not that agent's item of this tick")
            self.cov.inc("agent_step_records")


def run_marl(cfg, spec, cov, out):
    """multi-proxy scenario through the game loop (PrimaiteGymEnv is single-agent by contract)."""
    mon = ContractMonitor(cov, out, {"scenario": spec["src"], "driver": "game-loop"})
    rnd = random.Random(spec["seed"])
    try:
        drv = envdrv.GameDriver(cfg)
    except Exception as e:
        mon.on_exception(None, "construct", None, e)
        return
    g = drv.game
    hist = {n: 0 for n in g.agents}
    for t in range(spec["steps"]):
        acts = {n: rnd.randrange(len(a.action_manager.action_map)) for n, a in g.rl_agents.items()}
        before = g.step_counter
        try:
            drv.step(acts)
        except Exception as e:
            mon.on_exception(None, "step", None, e)
            return
        cov.inc("steps_checked")
        if g.step_counter != before + 1:
            mon.v("tick-not-advanced-by-one", f"step_counter {before} -> {g.step_counter}")
        for n, a in g.agents.items():
            if len(a.history) != hist[n] + 1:
                mon.v("history-not-one-item-per-step", f"agent {n}: {hist[n]} -> {len(a.history)}")
            hist[n] = len(a.history)
            cov.inc("agent_step_records")


class Check:
    pid = "C01"
    level = "exploration"
    rule = ("case = (scenario: every shipped scenario incl. episode-scheduled folders and buildable test assets, generated "
            "families lan/routed/dmz with a defender whose action map spans every registered action type x addressable "
            "component plus missing/misspelt targets) x policy {uniform random, mask-adversarial, power/transitional, sweep "
            "over every action index} x 2-3 consecutive episodes with a mid-episode reset, running one step past truncation. "
            "Non-trivial: an episode executed >=5 distinct non-do-nothing action types; distinct by (scenario, policy, seed).")
    assumptions = [
        "'every action of the agent's action space' = every index of the scenario's configured action map",
        "multi-proxy (MARL) files are driven through the game loop, not PrimaiteGymEnv",
        "a scenario whose construction fails is reported under construct-raises (shipped) or dropped and counted (generated)",
    ]
    min_monitor = {"steps_checked": 2000, "resets": 60, "truncation_boundary_steps": 20, "agent_step_records": 5000}
    case_timeout = {"quick": 1500, "thorough": 7200}

    def cases(self, tier, seed):
        specs = []
        q = tier == "quick"
        pols = ["random", "adversarial", "power", "sweep"]
        for i, f in enumerate(envrun.SHIPPED_SINGLE):
            for p in (pols[:2] if q else pols):
                specs.append({"name": f"shipped-{f}-{p}", "src": ["shipped", f], "policy": p, "seed": seed * 100 + i,
                              "episodes": 2, "steps": 40 if q else 400, "max_len": 32 if q else None})
        for i, f in enumerate(envrun.SHIPPED_FOLDERS):
            specs.append({"name": f"folder-{f}", "src": ["folder", f], "policy": "random", "seed": seed * 100 + i,
                          "episodes": 4 if q else 6, "steps": 24 if q else 300})
        specs.append({"name": "marl", "src": ["marl", "data_manipulation_marl.yaml"], "seed": seed, "steps": 40 if q else 256})
        for i, f in enumerate(envrun.TEST_ASSETS):
            specs.append({"name": f"asset-{f}", "src": ["asset", f], "policy": pols[i % 4], "seed": seed * 100 + i,
                          "episodes": 2, "steps": 24 if q else 128, "max_len": 20 if q else None})
        ngen = 96 if q else 400
        for s in range(ngen):
            sd = seed * 1000 + s
            specs.append({"name": f"gen-{sd}", "src": ["gen", {"seed": sd}], "policy": pols[s % 4], "seed": sd,
                          "episodes": 3, "steps": 48 if q else 96, "max_len": 24 if s % 2 else None,
                          "mid_reset_at": 9 if s % 3 == 0 else None})
        for s in range(12 if q else 64):  # two LANs joined over the air by wireless routers (family chosen explicitly: older seeds keep their scenarios)
            sd = seed * 1000 + 300 + s
            specs.append({"name": f"gen-wlan-{sd}", "src": ["gen", {"seed": sd, "family": "wlan", "knobs": {"max_actions": 1000} if s % 3 == 0 else {}}],
                          "policy": "sweep" if s % 3 == 0 else pols[s % 4], "seed": sd, "episodes": 2, "steps": 260 if s % 3 == 0 else (48 if q else 96),
                          "max_len": None if s % 3 == 0 else (24 if s % 2 else None), "mid_reset_at": 9 if s % 4 == 1 else None})
        # the defender acts LAST and on the very component a scripted agent used in its last turn (two actors on one component in one step)
        for s in range(32 if q else 128):
            sd = seed * 1000 + 600 + s
            specs.append({"name": f"gen-collide-{sd}", "src": ["gen", {"seed": sd, "knobs": {"defender_position": "last"}}], "policy": "collide" if s % 4 else "disrupt",
                          "seed": sd, "episodes": 2, "steps": 64 if q else 128, "max_len": None})
        for s in range(8 if q else 32):  # output fully on (agent action log, step metadata, pcap, sys logs, agent logs)
            sd = seed * 1000 + 900 + s
            src = ["gen", {"seed": sd}] if s % 4 else ["fullmap", {"file": "data_manipulation.yaml", "seed": sd}]
            specs.append({"name": f"io-on-{sd}", "src": src, "policy": pols[s % 4], "seed": sd, "episodes": 3, "steps": 30 if q else 96,
                          "max_len": 24, "io_on": True})
        for s in range(3 if q else 12):  # output fully on while EVERY action of the map is taken once (whatever ends up in a history item gets written)
            sd = seed * 1000 + 950 + s
            specs.append({"name": f"io-on-sweep-{sd}", "src": ["gen", {"seed": sd, "knobs": {"max_actions": 1000}}], "policy": "sweep", "seed": sd, "episodes": 2,
                          "steps": 420, "max_len": 410, "io_on": True})
        for i in range(6 if q else 24):  # shipped UC2 (scripted agents that succeed) + a defender that can do everything, colliding with them
            specs.append({"name": f"uc2-fullmap-{i}", "src": ["fullmap", {"file": "data_manipulation.yaml", "seed": seed * 10 + i}],
                          "policy": ["collide", "collide", "disrupt", "power", "nic", "adversarial"][i % 6], "seed": seed * 100 + 40 + i, "episodes": 2,
                          "steps": 100 if q else 128, "max_len": None})
        return specs

    def run_case(self, spec):
        cov, out = Cov(), []
        kind, name = spec["src"]
        if kind == "marl":
            cfg = envdrv.quiet(corpus.shipped(name))
            run_marl(cfg, spec, cov, out)
            return {"violations": out, "cov": cov.d, "nontrivial": cov.d.get("steps_checked", 0) > 10, "digest": digest(spec),
                    "sample": {"case": spec}}
        cfg, meta = envrun.scenario_source(kind, name)
        if isinstance(cfg, dict) and envrun.n_proxy_agents(cfg) != 1:
            cov.inc("skipped_not_single_agent")
            return {"violations": [], "cov": cov.d, "nontrivial": False, "digest": digest(spec), "sample": {"case": spec, "skipped": "not single-proxy"}}
        if spec.get("io_on") and isinstance(cfg, dict):
            # every output option on (into the private HOME of this process): the contract must not depend on what is written where
            cfg = dict(cfg, io_settings={"save_agent_actions": True, "save_step_metadata": True, "save_pcap_logs": True, "save_sys_logs": True,
                                         "save_agent_logs": True, "write_sys_log_to_terminal": False, "write_agent_log_to_terminal": False,
                                         "sys_log_level": "DEBUG", "agent_log_level": "DEBUG"})
            cov.inc("cases_with_all_output_on")
        mon = ContractMonitor(cov, out, {"scenario": spec["src"], "policy": spec["policy"], "seed": spec["seed"], "io_on": bool(spec.get("io_on"))})
        st = envrun.run_env(cfg, meta, [mon], spec["episodes"], spec["steps"], spec["policy"], spec["seed"],
                            mid_reset_at=spec.get("mid_reset_at"), max_len=spec.get("max_len"))
        for a, n in st["actions"].items():
            cov.hit("action_types_executed", a, n)
        for k, n in st["statuses"].items():
            cov.hit("action_status", k.split(":")[1], n)
        cov.add("scenario_x_actiontype", [meta.get("name"), len(st["actions"])])
        nontrivial = len([a for a in st["actions"] if a != "do-nothing"]) >= 5
        return {"violations": out, "cov": cov.d, "nontrivial": nontrivial, "digest": digest([spec["src"], spec["policy"], spec["seed"]]),
                "sample": {"case": spec, "steps": st["steps"], "episodes": st["episodes"], "action_types": sorted(st["actions"])[:12],
                           "crash": st.get("crash")}}


CHECK = Check()
