"""C03 - same scenario, seed and actions give the same trajectory, in any process.

Paired-run differential monitor: a child interpreter runs the trajectory and emits a step-by-step trace (observation,
reward, every agent's action/parameters/response status/response data with opaque ids normalised); the parent compares
traces position by position against the baseline arm. Arms: PYTHONHASHSEED values, injected clocks (fixed instant with
microsecond 0; large jumps), a different uuid/MAC entropy stream, logging fully on, same-process re-seed.
"""
from __future__ import annotations

import random

from pv import corpus, gen, traj
from pv.harness import Cov, digest, viol

SENSITIVE = ("node-nmap-ping-scan", "node-nmap-port-scan", "node-network-service-recon")


def action_names(src):
    """action map of the single proxy agent, computed in the parent without building the env"""
    if src[0] == "variant":
        return action_names(src[1]["base"])
    if src[0] == "gen":
        cfg, meta = gen.gen(src[1]["seed"], src[1].get("family"), src[1].get("knobs"))
    elif src[0] == "shipped":
        cfg = corpus.shipped(src[1])
    else:
        cfg = corpus.test_asset(src[1])
    for a in cfg["agents"]:
        if a.get("type") == "proxy-agent":
            am = a["action_space"]["action_map"]
            return [am[i]["action"] for i in range(len(am))]
    return ["do-nothing"]


def make_actions(names, rnd, steps, episodes, same=False):
    sens = [i for i, n in enumerate(names) if n in SENSITIVE]
    one = None
    out = []
    for _ in range(episodes):
        if same and one is not None:
            out.append(list(one))
            continue
        acts = []
        for t in range(steps):
            if sens and rnd.random() < 0.25:
                acts.append(rnd.choice(sens))
            elif rnd.random() < 0.3:
                acts.append(0)
            else:
                acts.append(rnd.randrange(len(names)))
        one = acts
        out.append(acts)
    return out


def session_script(src, rnd, steps, episodes):
    """Several concurrent remote sessions from one node to ONE remote address, then a remote command over 'the' session, then idling past
    the inactivity time-out, with a few more commands / logoffs on the way: which of several equal candidates a lookup picks must not depend on
    unseeded identifiers. -> per-episode action lists, or None if the scenario's action map has no usable login/command pair."""
    cfg, _ = gen.gen(src[1]["seed"], src[1].get("family"), src[1].get("knobs"))
    am = next(a for a in cfg["agents"] if a.get("type") == "proxy-agent")["action_space"]["action_map"]
    logins = [i for i in am if am[i]["action"] == "node-session-remote-login" and am[i]["options"].get("password") == "admin"]
    for li in logins:
        o = am[li]["options"]
        same = lambda a: [i for i in am if am[i]["action"] == a and am[i]["options"].get("node_name") == o["node_name"]  # noqa: E731
                          and am[i]["options"].get("remote_ip") == o["remote_ip"]]
        cmds, offs = same("node-send-remote-command"), same("node-session-remote-logoff")
        if not cmds:
            continue
        out = []
        for _ in range(episodes):
            n_login = rnd.choice([2, 2, 3])
            acts = [li] * n_login + [0] * rnd.randint(0, 6) + [cmds[0]]
            while len(acts) < steps:
                r = rnd.random()
                acts.append(cmds[0] if r < 0.04 else (offs[0] if offs and r < 0.06 else (li if r < 0.08 else 0)))
            out.append(acts[:steps])
        return out
    return None


def div_mech(arm_name, dv, base_steps):
    i, ep, t, what, detail = dv
    if what.startswith("agent-history"):
        try:
            act = detail[0][0]
        except Exception:
            act = "?"
        return f"diverges-under-{arm_name}/agent-response/{act}"
    if what == "observation" and detail:
        leaf = "/".join(p for p in str(detail[0]).split("/") if p and not p.isdigit() and not p.startswith(("HOST", "ROUTER", "FIREWALL")))
        return f"diverges-under-{arm_name}/observation/{leaf[-60:]}"
    return f"diverges-under-{arm_name}/{what}"


class Check:
    pid = "C03"
    level = "exploration"
    rule = ("case = (scenario: shipped UC2 / UC7-TAP001 / UC7-TAP003 / generated with probabilistic+periodic agents and nmap "
            "actions) x seed x scripted action list biased towards nmap scans; arms compared with the baseline trajectory: "
            "PYTHONHASHSEED in {1,2,(3..8 thorough)}, clock fixed at an instant with microsecond=0, clock with large jumps, a "
            "different uuid4/secrets stream, logging fully on (sys/pcap/agent logs, step metadata), and in-process re-seed "
            "(two episodes with the same seed and actions must be identical). Non-trivial pair: >=1 sensitive operation in the "
            "compared runs (nmap scan, >=50 probabilistic-agent draws, or a TAP stage beyond the first); distinct by (scenario, seed, arm).")
    assumptions = [
        "opaque identifiers (uuids, MAC addresses) are normalised by first occurrence; everything else in observations, rewards and per-agent (action, parameters, status, data) must be bit-identical",
        "wall-clock independence is checked by injecting adversarial clocks into the modules that read datetime.now()",
    ]
    min_monitor = {"pairs_compared": 40, "steps_compared": 3000, "sensitive_pairs": 20}
    case_timeout = {"quick": 2400, "thorough": 10800}

    def cases(self, tier, seed):
        q = tier == "quick"
        specs = []
        steps = 48 if q else 128
        srcs = [["shipped", "data_manipulation.yaml"], ["shipped", "uc7_config.yaml"], ["shipped", "uc7_config_tap003.yaml"]]
        for i, s in enumerate(srcs):
            specs.append({"name": f"{s[1]}", "src": s, "seed": seed * 10 + i, "steps": steps if i == 0 else (32 if q else 128), "episodes": 2,
                          "max_len": None})
        for j in range(2 if q else 6):  # the same files with scripted-agent settings re-drawn (several TAP start hosts, variances, ...)
            for f in ("uc7_config.yaml", "uc7_config_tap003.yaml", "data_manipulation.yaml"):
                specs.append({"name": f"{f}~settings{seed * 10 + j}", "src": ["variant", {"base": ["shipped", f], "settings_seed": seed * 10 + j, "p_nodes": 1.0}],
                              "seed": seed * 10 + 5 + j, "steps": (32 if q else 96) if f.startswith("uc7") else steps, "episodes": 2, "max_len": None})
        # the sharing defender declared BEFORE the (>= 2) green users it shares rewards with: the order in which the users act / are
        # evaluated must not come from a hash-ordered container
        for j, f in enumerate(["uc7_config.yaml", "data_manipulation.yaml"] if q else ["uc7_config.yaml", "data_manipulation.yaml", "uc7_config_tap003.yaml"] * 2):
            specs.append({"name": f"{f}~defender-first-{j}", "src": ["variant", {"base": ["shipped", f], "settings_seed": seed * 10 + 7 + j, "defender_first": True}],
                          "seed": seed * 10 + 8 + j, "steps": (32 if q else 96) if f.startswith("uc7") else steps, "episodes": 2, "max_len": None})
        for j in range(1 if q else 4):  # TAP001 that keeps re-scanning in random order after sweeping all its networks in vain
            specs.append({"name": f"uc7~repeat-scan-{j}", "src": ["variant", {"base": ["shipped", "uc7_config.yaml"], "settings_seed": seed * 10 + 3 + j, "p_repeat_scan": 1.0}],
                          "seed": seed * 10 + 4 + j, "steps": 36 if q else 128, "episodes": 2, "max_len": None})
        for g in range(4 if q else 16):
            sd = seed * 1000 + 200 + g
            specs.append({"name": f"gen-defender-first-{sd}", "src": ["gen", {"seed": sd, "knobs": {"p_random_agent": 0.5, "defender_position": "first", "min_clients": 3}}],
                          "seed": sd, "steps": steps, "episodes": 2})
        for g in range(8 if q else 32):
            sd = seed * 1000 + g
            specs.append({"name": f"gen-{sd}", "src": ["gen", {"seed": sd, "knobs": {"p_random_agent": 0.5}}], "seed": sd, "steps": steps, "episodes": 2})
        for g in range(6 if q else 24):  # several concurrent sessions to one address, a command, then the inactivity time-out (70 steps: > 2 x time-out)
            sd = seed * 1000 + 400 + g
            specs.append({"name": f"gen-sessions-{sd}", "src": ["gen", {"seed": sd, "family": "lan" if g % 2 else "routed", "knobs": {"p_random_agent": 0.0, "max_actions": 1000, "max_len": 80}}],
                          "seed": sd, "steps": 64 if q else 72, "episodes": 1 if q else 2, "script": "sessions"})
        return specs

    def run_case(self, spec):
        cov, out = Cov(), []
        tier_thorough = spec["steps"] > 64
        rnd = random.Random(spec["seed"])
        names = action_names(spec["src"])
        acts = make_actions(names, rnd, spec["steps"], spec["episodes"])
        if spec.get("script") == "sessions":
            acts = session_script(spec["src"], rnd, spec["steps"], spec["episodes"])
            if acts is None:
                cov.inc("session_script_not_applicable")
                return {"violations": [], "cov": cov.d, "nontrivial": False, "digest": digest([spec["src"], spec["seed"]]), "sample": {"case": spec, "skipped": "no login/command pair"}}
            cov.inc("session_scripts")
        base_spec = {"src": spec["src"], "seed": spec["seed"], "actions": acts, "keep_obs": True, "max_len": spec["steps"] + 2}
        base = traj.run_child(base_spec, hashseed=0)
        if "error" in base:
            return {"harness_error": f"baseline trajectory failed: {base['error'][-400:]}"}
        arms = [("hashseed", {"hashseed": 1}), ("hashseed", {"hashseed": 2}), ("clock-fixed-microsecond-0", {"arm": {"clock": "fixed0"}}),
                ("clock-jumps", {"arm": {"clock": "jumps"}}), ("entropy-stream", {"arm": {"entropy": 4242}}), ("logging-on", {"arm": {"logging": True}})]
        if tier_thorough:
            arms += [("hashseed", {"hashseed": h}) for h in range(3, 9)]
        elif spec["src"][0] == "variant" or "defender-first" in spec["name"]:
            arms += [("hashseed", {"hashseed": h}) for h in (3, 4)]
        sens = base["diag"]["sensitive"]
        sensitive = sens["nmap_scans"] > 0 or sens["prob_agent_steps"] >= 50 or len(sens["tap_stages"]) > 1 or spec.get("script") == "sessions"
        digs = []
        from concurrent.futures import ThreadPoolExecutor

        def run_arm(ao):
            arm_name, o = ao
            s2 = dict(base_spec)
            if "arm" in o:
                s2["arm"] = o["arm"]
            return arm_name, o, s2, traj.run_child(s2, hashseed=o.get("hashseed", 0))

        with ThreadPoolExecutor(max_workers=3) as ex:
            arm_results = list(ex.map(run_arm, arms))
        for arm_name, o, s2, res in arm_results:
            if "error" in res:
                # the arm itself crashed: only a finding if the same trajectory did not crash in the baseline
                out.append(viol(f"arm-crashes/{arm_name}", f"{arm_name} {o}: trajectory raised although the baseline did not: {res['error'][-300:]}",
                                {"spec": s2}))
                continue
            cov.inc("pairs_compared")
            cov.inc("steps_compared", len(res["steps"]))
            cov.hit("arms", arm_name)
            if sensitive:
                cov.inc("sensitive_pairs")
                digs.append(digest([spec["src"], spec["seed"], arm_name, o]))
            dv = traj.first_divergence(base["steps"], res["steps"])
            if dv:
                i, ep, t, what, detail = dv
                mech = div_mech(arm_name, dv, base["steps"])
                if not any(v["mech"] == mech for v in out):
                    out.append(viol(mech, f"{spec['src']} seed {spec['seed']}: trajectory under {arm_name} {o} diverges from the baseline at episode {ep} "
                                          f"step {t}: {what}: {str(detail)[:400]}", {"spec": s2, "base_spec": base_spec, "divergence": [i, ep, t, what, str(detail)[:1500]]}))
        # in-process re-seed: two episodes, same seed, same actions -> identical episodes
        acts_same = make_actions(names, random.Random(spec["seed"] + 1), spec["steps"], 2, same=True)
        rs = traj.run_child({"src": spec["src"], "seed": spec["seed"], "actions": acts_same, "keep_obs": True, "same_seed_each_episode": True,
                             "max_len": spec["steps"] + 2}, hashseed=0)
        if "error" not in rs:
            e0 = [s[1:] for s in rs["steps"] if s[0] == 0]
            e1 = [s[1:] for s in rs["steps"] if s[0] == 1]
            cov.inc("pairs_compared")
            cov.inc("steps_compared", len(e1))
            cov.hit("arms", "reseed-same-process")
            dv = traj.first_divergence([[0] + x for x in e0], [[0] + x for x in e1])
            if dv:
                mech = div_mech("reseed-on-reset", dv, e0)
                out.append(viol(mech, f"{spec['src']}: episode re-run after reset(seed={spec['seed']}) with the same actions diverges at step {dv[2]}: {dv[3]}: {str(dv[4])[:400]}",
                                {"divergence": [str(x)[:800] for x in dv]}))
        cov.d["sens_digests"] = digs
        cov.hit("sensitive_ops", "nmap_scans", sens["nmap_scans"])
        cov.hit("sensitive_ops", "prob_agent_steps", sens["prob_agent_steps"])
        for st in sens["tap_stages"]:
            cov.add("tap_stages_seen", st)
        return {"violations": out, "cov": cov.d, "nontrivial": sensitive, "digest": digest([spec["src"], spec["seed"]]),
                "sample": {"case": spec, "baseline_sha": base["sha"], "sensitive": sens, "arms": [a for a, _ in arms]}}

    def post(self, specs, results, tier, seed):
        d = set()
        for r in results:
            if r and "cov" in r:
                d |= set(r["cov"].get("sens_digests", []))
        return {"digests": sorted(d)}


CHECK = Check()
