"""C10 - reward = weighted sum of components; shared rewards use same-step values irrespective of declaration order;
cyclic sharing rejected at load; sticky/non-sticky; episode total = sum of step rewards.

Monitors: (1) reference reward calculator (pv.models.reward_ref) reading simulator OBJECTS, evaluated after every
update_agents for every agent, compared component-wise (tap on every reward class's calculate) and in total;
(2) staleness tap: SharedReward.calculate must read the other agent's reward AFTER that agent's RewardFunction.update in
the same tick; (3) graph acceptance: graph_has_cycle / topological_sort against a Kahn reference for ALL digraphs on
<=4 labelled agents, and a sample loaded through PrimaiteGame.from_config; (4) declaration-order permutations.
"""
from __future__ import annotations

import copy
import itertools
import random

from pv import corpus, envdrv, probes
from pv.harness import Cov, digest, viol
from pv.models import reward_ref

CLIENTS = ["c1", "c2", "c3", "c4"]
# pages with different answers in the same state: database-backed (200 / 404 on a failed query / 500 without a connection), static (200), absent (404)
URLS = ["http://arcd.com/users/", "http://arcd.com/", "http://arcd.com/missing/", "http://arcd.com/users/"]


def webnet():
    n = corpus.Net()
    n.switch("sw1", 8, start_up_duration=0, shut_down_duration=0)
    n.host("web", "192.168.1.12", kind="server", dns_server="192.168.1.12", start_up_duration=0, shut_down_duration=0,
           services=[{"type": "web-server"}, {"type": "dns-server", "options": {"domain_mapping": {"arcd.com": "192.168.1.12"}}}],
           applications=[{"type": "database-client", "options": {"db_server_ip": "192.168.1.14"}}])
    n.host("db", "192.168.1.14", kind="server", start_up_duration=0, shut_down_duration=0,
           services=[{"type": "database-service"}])
    n.to_switch("sw1", "web")
    n.to_switch("sw1", "db")
    for i, c in enumerate(CLIENTS):
        n.host(c, f"192.168.1.{21 + i}", dns_server="192.168.1.12", start_up_duration=0, shut_down_duration=0,
               applications=[{"type": "web-browser", "options": {"target_url": URLS[i % len(URLS)]}},
                             {"type": "database-client", "options": {"db_server_ip": "192.168.1.14"}}])
        n.to_switch("sw1", c)
    return n


def client_actions(c):
    return [
        ("do-nothing", {}),
        ("node-application-execute", {"node_name": c, "application_name": "web-browser"}),
        ("node-application-execute", {"node_name": c, "application_name": "database-client"}),
        ("node-os-scan", {"node_name": c}),
        ("node-application-close", {"node_name": c, "application_name": "web-browser"}),
        ("node-application-execute", {"node_name": c, "application_name": "nosuch-app"}),
    ]


ADMIN_ACTIONS = [
    ("do-nothing", {}),
    ("node-service-stop", {"node_name": "web", "service_name": "web-server"}),
    ("node-service-start", {"node_name": "web", "service_name": "web-server"}),
    ("node-service-stop", {"node_name": "db", "service_name": "database-service"}),
    ("node-service-start", {"node_name": "db", "service_name": "database-service"}),
    ("node-file-corrupt", {"node_name": "db", "folder_name": "database", "file_name": "database.db"}),
    ("node-file-restore", {"node_name": "db", "folder_name": "database", "file_name": "database.db"}),
    ("node-file-delete", {"node_name": "db", "folder_name": "database", "file_name": "database.db"}),
    ("node-application-remove", {"node_name": "c1", "application_name": "web-browser"}),
    ("node-application-install", {"node_name": "c1", "application_name": "web-browser"}),
]


def gen_rewards(rnd, name, client, deps):
    comps = []
    pool = ["dummy", "database-file-integrity", "web-server-404-penalty", "webpage-unavailable-penalty",
            "green-admin-database-unreachable-penalty", "action-penalty"]
    for t in rnd.sample(pool, rnd.randint(1, len(pool))):
        w = rnd.choice([0.0, 1.0, 0.25, -0.5, 0.05, 2.0])
        sticky = rnd.random() < 0.5
        if t == "dummy":
            comps.append({"type": t, "weight": w})
        elif t == "database-file-integrity":
            comps.append({"type": t, "weight": w, "options": {"node_hostname": "db", "folder_name": "database", "file_name": "database.db"}})
        elif t == "web-server-404-penalty":
            comps.append({"type": t, "weight": w, "options": {"node_hostname": "web", "service_name": "web-server", "sticky": sticky}})
        elif t == "webpage-unavailable-penalty":
            comps.append({"type": t, "weight": w, "options": {"node_hostname": client, "sticky": sticky}})
        elif t == "green-admin-database-unreachable-penalty":
            comps.append({"type": t, "weight": w, "options": {"node_hostname": client, "sticky": sticky}})
        elif t == "action-penalty":
            comps.append({"type": t, "weight": w, "options": {"action_penalty": rnd.choice([-1.0, -0.3]), "do_nothing_penalty": rnd.choice([0.0, 0.1])}})
    for d in deps:
        comps.append({"type": "shared-reward", "weight": rnd.choice([1.0, 0.5, -1.0]), "options": {"agent_name": d}})
    rnd.shuffle(comps)
    return comps


def random_dag(rnd, names):
    order = names[:]
    rnd.shuffle(order)
    deps = {n: [] for n in names}
    for i, n in enumerate(order):
        for m in order[:i]:
            if rnd.random() < 0.5:
                deps[n].append(m)
    return deps


class RewardMonitor:
    def __init__(self, cov, out, ctx):
        self.cov, self.out, self.ctx = cov, out, ctx
        self.comp_values = {}
        self.updated = set()
        self.game = None
        self.log = []
        self.totals = {}

    def v(self, mech, msg):
        if not any(o["mech"] == mech for o in self.out):
            self.out.append(viol(mech, msg, {"ctx": self.ctx, "log": self.log[-20:]}))

    def install(self):
        from primaite.game.agent.rewards import AbstractReward, RewardFunction, SharedReward

        mon = self
        for name, cls in list(AbstractReward._registry.items()):
            if "calculate" in cls.__dict__:
                def post(comp, tok, res, exc, *a, **k):
                    mon.comp_values.setdefault(id(comp), []).append(res)
                probes.wrap(cls, "calculate", None, post, tapname=f"calculate:{name}")

        def pre_update(rf, *a, **k):
            mon.updated.add(id(rf))

        probes.wrap(RewardFunction, "update", pre_update, None)

        def pre_shared(comp, *a, **k):
            g = mon.game
            if g is None:
                return
            other = g.agents.get(comp.config.agent_name)
            mon.cov.inc("shared_reads")
            if other is not None and id(other.reward_function) not in mon.updated:
                mon.v("shared-reward-read-before-update", f"shared-reward component read agent '{comp.config.agent_name}' "
                      "before that agent's reward was updated in this tick (stale value)")

        # wrap the underlying function once more (outermost) for the staleness check
        probes.wrap(SharedReward, "calculate", pre_shared, None, tapname="shared-staleness")

    def new_tick(self):
        self.updated.clear()
        self.comp_values.clear()


def check_step(mon, game, ref, cov, label):
    """after update_agents: compare every agent with the reference. Each clause is judged on its own inputs (the real
    component values for the sum, the real step rewards for the total, the real same-step reward of the other agent for
    sharing) so that one wrong component does not cascade into the other clauses."""
    real_now = {n: a.reward_function.current_reward for n, a in game.agents.items()}
    exp = ref.step(game, real_now)
    for name, (total, cvals) in exp.items():
        agent = game.agents[name]
        rf = agent.reward_function
        got_c = [mon.comp_values.get(id(c), [None])[-1] for c, w in rf.reward_components]
        item = agent.history[-1]
        mon.log.append((label, name, item.action, item.response.status, "reward", rf.current_reward, "expected", total))
        for i, (c, w) in enumerate(rf.reward_components):
            rc = ref.comps[name][i]
            cell = f"{rc.ctype}|sticky={rc.opts.get('sticky')}|{'nonzero' if cvals[i] else 'zero'}"
            cov.hit("component_cells", cell)
            z = getattr(rc, "zero_average_over_memory", 0)
            if z > getattr(rc, "_z_reported", 0):
                cov.inc("web404_zero_average_steps_over_nonzero_memory", z - getattr(rc, "_z_reported", 0))
                rc._z_reported = z
            for cs_ in getattr(rc, "seen_code_sets", ()):
                cov.hit("web404_code_sets", "+".join(map(str, cs_)))
            if got_c[i] is None or not reward_ref.close(float(got_c[i]), float(cvals[i])):
                mon.v(f"component-value/{rc.ctype}/sticky={rc.opts.get('sticky')}",
                      f"{label}: agent {name} component {rc.ctype} {rc.opts}: real {got_c[i]} expected {cvals[i]} "
                      f"(last action {item.action} {list(item.request)} -> {item.response.status})")
                rc.prev = float(got_c[i]) if got_c[i] is not None else rc.prev  # resynchronise sticky memory
        if all(g is not None for g in got_c):
            wsum = 0.0
            for rc, g in zip(ref.comps[name], got_c):
                wsum += rc.weight * g
            if not reward_ref.close(rf.current_reward, wsum):
                mon.v("weighted-sum-mismatch", f"{label}: agent {name} current_reward {rf.current_reward} != sum(configured weight * "
                      f"component value) {wsum}; components {got_c} weights {[rc.weight for rc in ref.comps[name]]}")
        if item.reward is None or not reward_ref.close(item.reward, rf.current_reward):
            mon.v("history-reward-mismatch", f"{label}: agent {name} history[-1].reward {item.reward} != current {rf.current_reward}")
        mon.totals[name] = mon.totals.get(name, 0.0) + rf.current_reward
        if not reward_ref.close(rf.total_reward, mon.totals[name]):
            mon.v("episode-total-mismatch", f"{label}: agent {name} total_reward {rf.total_reward} != sum of its step rewards {mon.totals[name]}")
        cov.inc("agent_step_compares")


# ---------------------------------------------------------------------------------------------- cases
def case_graphs(spec, cov, out):
    """ALL digraphs on n labelled agents (self loops included): cycle detection and evaluation order."""
    from primaite.game.science import graph_has_cycle, topological_sort

    n = spec["n"]
    names = [f"a{i}" for i in range(n)]
    pairs = [(i, j) for i in range(n) for j in range(n)]
    lo, hi = spec["lo"], spec["hi"]
    for mask in range(lo, hi):
        g = {nm: set() for nm in names}
        for b, (i, j) in enumerate(pairs):
            if mask >> b & 1:
                g[names[i]].add(names[j])
        exp = reward_ref.has_cycle(g)
        try:
            got = graph_has_cycle(g)
        except Exception as e:
            out.append(viol("graph-has-cycle-raises", f"{g}: {type(e).__name__} {e}", {"graph": {k: sorted(v) for k, v in g.items()}}))
            return
        cov.inc("graphs")
        cov.inc("cyclic" if exp else "acyclic")
        if bool(got) != exp:
            out.append(viol("cycle-detection-wrong", f"graph {g}: graph_has_cycle={got}, reference={exp}",
                            {"graph": {k: sorted(v) for k, v in g.items()}}))
            return
        if not exp:
            order = list(topological_sort(g))
            pos = {x: i for i, x in enumerate(order)}
            if sorted(order) != sorted(names):
                out.append(viol("toposort-not-a-permutation", f"graph {g}: order {order}", {"graph": {k: sorted(v) for k, v in g.items()}}))
                return
            for a, deps in g.items():
                for d in deps:
                    if pos[d] > pos[a]:
                        out.append(viol("toposort-dependant-before-dependency", f"graph {g}: {a} depends on {d} but order is {order}",
                                        {"graph": {k: sorted(v) for k, v in g.items()}}))
                        return
            cov.inc("orders_checked")


def build_cfg(agent_names, deps, rnd, order=None, with_admin=True, reward_cfgs=None):
    net = webnet()
    agents = []
    reward_cfgs = reward_cfgs if reward_cfgs is not None else {}
    for i, nm in enumerate(agent_names):
        client = CLIENTS[i % len(CLIENTS)]
        if nm not in reward_cfgs:
            reward_cfgs[nm] = gen_rewards(rnd, nm, client, deps.get(nm, []))
        agents.append(envdrv.proxy_agent(nm, client_actions(client), reward_cfgs[nm]))
    if with_admin:
        agents.append(envdrv.proxy_agent("admin", ADMIN_ACTIONS, reward_cfgs.setdefault("admin", [{"type": "dummy"}])))
    if order is not None:
        by = {a["ref"]: a for a in agents}
        agents = [by[n] for n in order]
    return net.scenario(agents=agents, max_len=64, seed=1), reward_cfgs


def run_game(cfg, script, cov, out, ctx, label, check=True):
    probes.uninstall_all()
    mon = RewardMonitor(cov, out, ctx)
    mon.install()
    try:
        drv = envdrv.GameDriver(cfg)
        mon.game = drv.game
        ref = reward_ref.RefRewards(cfg["agents"])
        seqs = {a["ref"]: [] for a in cfg["agents"]}
        for t, actions in enumerate(script):
            mon.new_tick()
            drv.step(actions)
            if check:
                check_step(mon, drv.game, ref, cov, f"{label} step {t}")
            for nm in seqs:
                seqs[nm].append(drv.game.agents[nm].reward_function.current_reward)
            if out:
                break
        return seqs
    finally:
        probes.uninstall_all()


def gen_script(rnd, names, steps, with_admin=True):
    """a step is either an admin step (only the admin acts) or a client step: actions within a step commute, so the
    declaration order of the agents (= acting order) cannot change the simulation, only the reward bookkeeping could."""
    script = []
    for t in range(steps):
        acts = {nm: 0 for nm in names}
        if with_admin:
            acts["admin"] = 0
        if with_admin and rnd.random() < 0.3:
            acts["admin"] = rnd.randrange(1, len(ADMIN_ACTIONS))
        else:
            for nm in names:
                # long do-nothing stretches (stickiness) mixed with qualifying events
                acts[nm] = 0 if rnd.random() < 0.45 else rnd.randrange(1, 6)
        script.append(acts)
    return script


def case_game(spec, cov, out):
    """generated reward configs + sharing DAG; reference compare every step; all declaration-order permutations."""
    rnd = random.Random(spec["seed"])
    k = spec["agents"]
    names = [f"ag{i}" for i in range(k)]
    deps = random_dag(rnd, names)
    cfg, rcfgs = build_cfg(names, deps, rnd)
    script = gen_script(rnd, names, spec["steps"])
    ctx = {"seed": spec["seed"], "deps": deps, "rewards": rcfgs}
    base = run_game(cfg, script, cov, out, ctx, "decl-order 0")
    if out:
        return
    cov.inc("games")
    depth = 0
    for n in names:
        d, cur = 0, [n]
        while cur:
            cur = [x for c in cur for x in deps[c]]
            d += 1 if cur else 0
        depth = max(depth, d)
    cov.mx("sharing_depth", depth)
    perms = list(itertools.permutations(names + ["admin"]))
    rnd.shuffle(perms)
    for pi, perm in enumerate(perms[: spec["perms"]]):
        cfg2, _ = build_cfg(names, deps, rnd, order=list(perm), reward_cfgs=rcfgs)
        seqs = run_game(cfg2, script, cov, out, {**ctx, "order": list(perm)}, f"decl-order {list(perm)}")
        if out:
            return
        cov.inc("permutations_compared")
        for nm in names:
            if seqs[nm] != base[nm]:
                t = next(i for i, (a, b) in enumerate(zip(seqs[nm], base[nm])) if a != b)
                out.append(viol("declaration-order-changes-reward",
                                f"agent {nm}: reward at step {t} is {seqs[nm][t]} with declaration order {list(perm)} but "
                                f"{base[nm][t]} with order {names + ['admin']}", {**ctx, "order": list(perm), "script": script[: t + 1]}))
                return


def case_web404(spec, cov, out):
    """directed: four clients whose browsers fetch a database-backed, a static, a missing and a database-backed page; every agent
    carries a sticky and a non-sticky web-server-404-penalty; steps mix the answers of one step (200+404, 500 alone, 200+500, ...)
    after the sticky memory holds a non-zero value, with idle steps in between."""
    rnd = random.Random(spec["seed"])
    names = [f"ag{i}" for i in range(4)]
    comp = lambda sticky, w: {"type": "web-server-404-penalty", "weight": w,  # noqa: E731
                              "options": {"node_hostname": "web", "service_name": "web-server", "sticky": sticky}}
    rcfgs = {nm: [comp(True, 0.5), comp(False, 0.25)] for nm in names}
    rcfgs["ag1"].append({"type": "shared-reward", "weight": 1.0, "options": {"agent_name": "ag0"}})
    deps = {nm: [] for nm in names}
    deps["ag1"] = ["ag0"]
    cfg, _ = build_cfg(names, deps, rnd, reward_cfgs=rcfgs)
    B = 1  # index of 'execute web-browser' in client_actions
    stop_db, start_db, corrupt, restore = 3, 4, 5, 6
    idle = {**{nm: 0 for nm in names}, "admin": 0}
    def step(**kw):
        return {**idle, **kw}
    script = [step(ag1=B), step(), step(ag1=B, ag2=B), step(), step(ag0=B), step(ag0=B, ag2=B), step(admin=stop_db), step(ag0=B), step(),
              step(ag1=B), step(ag0=B, ag1=B), step(ag0=B, ag2=B), step(admin=start_db), step(ag3=B), step(admin=corrupt), step(ag0=B, ag1=B), step(),
              step(ag2=B), step(ag1=B, ag2=B, ag0=B, ag3=B), step(admin=restore), step(ag0=B), step(ag1=B, ag2=B)]
    for _ in range(spec.get("extra", 20)):
        script.append(step(**{nm: (B if rnd.random() < 0.5 else 0) for nm in names}) if rnd.random() < 0.75
                      else step(admin=rnd.choice([stop_db, start_db, corrupt, restore])))
    run_game(cfg, script, cov, out, {"seed": spec["seed"], "rewards": "sticky+non-sticky web-server-404-penalty per agent"}, "web404")
    cov.inc("games")


def case_shared_browser(spec, cov, out):
    """directed: two agents use the SAME client's browser and the admin acts between them in the step order (a0, admin, a1): what a
    component reads after the step (the browser's latest request) may stem from another agent's later action in the same step."""
    rnd = random.Random(spec["seed"])
    net = webnet()
    comp = lambda sticky, w: {"type": "webpage-unavailable-penalty", "weight": w, "options": {"node_hostname": "c1", "sticky": sticky}}  # noqa: E731
    rcfgs = {"a0": [comp(True, 0.5), comp(False, 0.25)], "a1": [comp(True, 0.5), comp(False, 0.25), {"type": "shared-reward", "weight": 1.0, "options": {"agent_name": "a0"}}],
             "admin": [{"type": "dummy"}]}
    order = spec.get("order", ["a0", "admin", "a1"])
    mk = {"a0": lambda: envdrv.proxy_agent("a0", client_actions("c1"), rcfgs["a0"]), "a1": lambda: envdrv.proxy_agent("a1", client_actions("c1"), rcfgs["a1"]),
          "admin": lambda: envdrv.proxy_agent("admin", ADMIN_ACTIONS, rcfgs["admin"])}
    cfg = net.scenario(agents=[mk[n]() for n in order], max_len=64, seed=1)
    B, stop_web, start_web, stop_db, start_db = 1, 1, 2, 3, 4
    idle = {"a0": 0, "a1": 0, "admin": 0}
    def step(**kw):
        return {**idle, **kw}
    script = [step(a0=B), step(), step(a0=B, admin=stop_web, a1=B), step(), step(admin=start_web), step(a0=B, a1=B), step(a1=B, admin=stop_db, a0=B), step(),
              step(admin=start_db), step(a0=B, admin=stop_web), step(a1=B), step(admin=start_web, a0=B, a1=B), step()]
    for _ in range(spec.get("extra", 24)):
        script.append(step(a0=B if rnd.random() < 0.6 else 0, a1=B if rnd.random() < 0.6 else 0,
                           admin=rnd.choice([0, 0, stop_web, start_web, stop_db, start_db])))
    run_game(cfg, script, cov, out, {"seed": spec["seed"], "order": order, "rewards": "webpage-unavailable-penalty on one shared client"}, "shared-browser")
    cov.inc("games")
    cov.inc("shared_browser_steps", len(script))


def case_load_graphs(spec, cov, out):
    """sharing graphs through the real loader: RuntimeError iff cyclic; acyclic ones are stepped and checked."""
    from primaite.game.game import PrimaiteGame

    rnd = random.Random(spec["seed"])
    for _ in range(spec["n"]):
        k = rnd.choice([2, 3, 4])
        names = [f"ag{i}" for i in range(k)]
        deps = {n: [m for m in names if rnd.random() < (0.3 if k > 2 else 0.5)] for n in names}
        if rnd.random() < 0.5:
            deps = random_dag(rnd, names)
        cyc = reward_ref.has_cycle(deps)
        cfg, rcfgs = build_cfg(names, deps, rnd, with_admin=False)
        try:
            PrimaiteGame.from_config(copy.deepcopy(cfg))
            loaded, err = True, None
        except RuntimeError as e:
            loaded, err = False, e
        except RecursionError as e:
            loaded, err = False, e
            out.append(viol("cyclic-sharing-recursion-error", f"deps {deps}: RecursionError at load", {"deps": deps}))
            return
        cov.inc("graphs_loaded_through_from_config")
        cov.inc("load_cyclic" if cyc else "load_acyclic")
        if cyc and loaded:
            out.append(viol("cyclic-sharing-accepted", f"sharing graph {deps} is cyclic but the scenario loaded", {"deps": deps}))
            return
        if not cyc and not loaded:
            out.append(viol("acyclic-sharing-rejected", f"sharing graph {deps} is acyclic but loading raised {err}", {"deps": deps}))
            return
        if not cyc:
            script = gen_script(rnd, names, 6, with_admin=False)
            run_game(cfg, script, cov, out, {"seed": spec["seed"], "deps": deps, "rewards": rcfgs}, "loaded-graph")
            if out:
                return


def case_uc2(spec, cov, out):
    """UC2 through the gym environment: reference for every agent every step, env reward, two episodes."""
    cfg = envdrv.quiet(corpus.shipped(spec.get("file", "data_manipulation.yaml")))
    cfg["game"]["max_episode_length"] = spec["steps"]
    probes.uninstall_all()
    mon = RewardMonitor(cov, out, {"scenario": spec.get("file", "data_manipulation.yaml"), "seed": spec["seed"]})
    mon.install()
    try:
        env = envdrv.make_env(cfg)
        rnd = random.Random(spec["seed"])
        for ep in range(spec["episodes"]):
            env.reset(seed=spec["seed"] + ep)
            mon.game = env.game
            mon.totals = {}
            ref = reward_ref.RefRewards(cfg["agents"])
            n = env.action_space.n
            for t in range(spec["steps"]):
                mon.new_tick()
                a = 0 if rnd.random() < 0.5 else rnd.randrange(n)
                obs, rew, term, trunc, info = env.step(a)
                check_step(mon, env.game, ref, cov, f"ep{ep} step{t}")
                if not reward_ref.close(rew, env.agent.reward_function.current_reward):
                    mon.v("env-reward-not-agent-reward", f"ep{ep} step{t}: env.step returned {rew}, agent current_reward {env.agent.reward_function.current_reward}")
                cov.inc("env_steps")
                if out:
                    return
            cov.inc("episodes")
    finally:
        probes.uninstall_all()


RUN = {"graphs": case_graphs, "game": case_game, "load": case_load_graphs, "uc2": case_uc2, "web404": case_web404, "shared-browser": case_shared_browser}


class Check:
    pid = "C10"
    level = "exploration"
    rule = ("cases: (graphs) ALL directed graphs incl. self-loops on n<=4 labelled agents (2+16+512+65536) through "
            "graph_has_cycle/topological_sort vs a Kahn reference; (load) random sharing graphs through PrimaiteGame.from_config "
            "(RuntimeError iff cyclic) then stepped; (game) generated reward functions (every component type, random weights "
            "incl. 0/negative, sticky both ways, sharing DAGs depth 1-3) on a web/db LAN driven by scripted proxy agents with "
            "browser/db executes, failures (services stopped, app closed/removed, file corrupted/deleted) and do-nothing "
            "stretches, compared component-wise with the reference every step and re-run under declaration-order permutations; "
            "(uc2) shipped UC2 through PrimaiteGymEnv, 2 episodes. Non-trivial game case: >=1 nonzero value for >=3 component "
            "types; distinct by spec.")
    assumptions = [
        "reference semantics from docs/source/rewards.rst + component docstrings; 'same step' = value the other agent's reward function computed in this tick",
        "permutation cases use agents acting on disjoint client nodes so that their actions commute in the simulator",
    ]
    min_monitor = {"agent_step_compares": 500, "shared_reads": 100, "graphs": 60000, "permutations_compared": 10, "web404_zero_average_steps_over_nonzero_memory": 4}
    case_timeout = {"quick": 1200, "thorough": 3600}

    def cases(self, tier, seed):
        specs = []
        for n in (1, 2, 3):
            specs.append({"name": f"graphs-n{n}", "kind": "graphs", "n": n, "lo": 0, "hi": 2 ** (n * n)})
        chunk = 4096
        for lo in range(0, 65536, chunk):
            specs.append({"name": f"graphs-n4-{lo}", "kind": "graphs", "n": 4, "lo": lo, "hi": lo + chunk})
        ng = 12 if tier == "quick" else 80
        for s in range(ng):
            specs.append({"name": f"game-{seed * 1000 + s}", "kind": "game", "seed": seed * 1000 + s, "agents": 2 + s % 3,
                          "steps": 30 if tier == "quick" else 64, "perms": 3 if tier == "quick" else 8})
        for s in range(4 if tier == "quick" else 16):
            specs.append({"name": f"load-{seed * 1000 + s}", "kind": "load", "seed": seed * 1000 + s, "n": 12 if tier == "quick" else 40})
        for s in range(2 if tier == "quick" else 8):
            specs.append({"name": f"web404-{seed * 1000 + s}", "kind": "web404", "seed": seed * 1000 + s, "extra": 20 if tier == "quick" else 80})
        for s, order in enumerate([["a0", "admin", "a1"], ["a1", "admin", "a0"], ["admin", "a0", "a1"]]):
            specs.append({"name": f"shared-browser-{s}", "kind": "shared-browser", "seed": seed * 1000 + s, "order": order, "extra": 24 if tier == "quick" else 100})
        for s in range(2 if tier == "quick" else 6):
            specs.append({"name": f"uc2-{seed * 1000 + s}", "kind": "uc2", "seed": seed * 1000 + s, "episodes": 2,
                          "steps": 64 if tier == "quick" else 128})
        if tier == "thorough":
            specs.append({"name": "uc2-marl-style-shared", "kind": "uc2", "seed": seed, "episodes": 2, "steps": 100,
                          "file": "data_manipulation.yaml"})
        return specs

    def run_case(self, spec):
        cov, out = Cov(), []
        RUN[spec["kind"]](spec, cov, out)
        cells = cov.d.get("component_cells", {})
        types_nonzero = {c.split("|")[0] for c in cells if c.endswith("nonzero")}
        nontrivial = len(types_nonzero) >= 3 if spec["kind"] in ("game", "uc2") else cov.d.get("graphs", 0) + cov.d.get("graphs_loaded_through_from_config", 0) > 0
        return {"violations": out, "cov": cov.d, "nontrivial": nontrivial, "digest": digest(spec),
                "sample": {"case": spec, "cells": sorted(cells)[:10]}}


CHECK = Check()
