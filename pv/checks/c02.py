"""C02 - every observation is a member of the declared observation space; spaces constant across episodes.

Monitors: (env level) gymnasium's own Space.contains on every reset/step result (nested, and flattened via the
flattened space + unflatten round trip) with a leaf walker naming the first offending leaf; structural space equality
across episodes. (component level, bounded-exhaustive) every observation object of a real defender tree is fed a real
describe_state() mutated so that every enumeration field takes every member of its live simulator enum and every count
runs from 0 past the top threshold / bandwidth.
"""
from __future__ import annotations

import copy
import random

import numpy as np

from pv import corpus, envdrv, envrun, gen
from pv.harness import Cov, digest, viol


def first_bad_leaf(space, obs, path=""):
    from gymnasium import spaces

    if isinstance(space, spaces.Dict):
        if not isinstance(obs, dict):
            return path, f"Dict space, observation is {type(obs).__name__}"
        for k in space.spaces:
            if k not in obs:
                return f"{path}/{k}", "key missing from observation"
        for k in obs:
            if k not in space.spaces:
                return f"{path}/{k}", "key not in space"
        for k, sub in space.spaces.items():
            r = first_bad_leaf(sub, obs[k], f"{path}/{k}")
            if r:
                return r
        return None
    try:
        ok = space.contains(obs)
    except Exception as e:
        return path, f"contains raised {type(e).__name__}: {e}"
    if not ok:
        return path, f"value {obs!r} not in {space}"
    return None


def leaf_kind(path):
    parts = [p for p in path.split("/") if p]
    # strip indices / labels, keep field names
    keep = [p for p in parts if not p.isdigit() and not p.startswith(("HOST", "ROUTER", "FIREWALL")) and p not in ("NODES", "LINKS")]
    return "/".join(keep[-3:]) if keep else path


OBS_FILES = ("acl_observation.py", "file_system_observations.py", "firewall_observation.py", "host_observations.py", "link_observation.py",
             "nic_observations.py", "node_observations.py", "observation_manager.py", "observations.py", "router_observation.py", "software_observation.py")


class SpaceMonitor:
    def __init__(self, cov, out, ctx):
        self.cov, self.out, self.ctx = cov, out, ctx
        self.obs_space = None
        self.act_space = None
        self.trail = []

    def v(self, mech, msg, extra=None):
        if not any(o["mech"] == mech for o in self.out):
            self.out.append(viol(mech, msg, {"ctx": self.ctx, "last_actions": self.trail[-10:], **(extra or {})}))

    def on_exception(self, env, phase, action, exc):
        # crashes are C01's verdict; here only counted (an obs that cannot even be flattened is reported below)
        self.cov.hit("diag_exceptions", f"{phase}:{type(exc).__name__}")
        et, site = envrun.exc_site(exc)
        if site and ("flatten" in site or "spaces" in site or "environment.py:_get_obs" in site):
            self.v(f"observation-not-encodable/{et}@{site}", f"{phase}: {et}: {str(exc)[:200]}")
        elif site and site.split(":")[0] in OBS_FILES:
            # the observation code itself gave up on a reachable state: no member of the declared space could be produced for it
            self.v(f"observation-cannot-be-built/{et}@{site}", f"{phase}: {et}: {str(exc)[:200]} (raised inside the observation code while encoding the state)")

    def check(self, env, obs, where):
        self.cov.inc("observations_checked")
        agent = env.agent
        nested_space = agent.observation_manager.space
        nested = agent.observation_manager.current_observation
        bad = first_bad_leaf(nested_space, nested)
        if bad:
            self.v(f"leaf-out-of-space/{leaf_kind(bad[0])}", f"{where}: observation leaf {bad[0]}: {bad[1]}")
            return
        try:
            ok = env.observation_space.contains(obs)
        except Exception as e:
            ok = False
            self.v("contains-raises", f"{where}: observation_space.contains raised {e}")
        if not ok:
            self.v("returned-observation-not-in-space", f"{where}: returned observation not in env.observation_space "
                   f"(flatten={agent.flatten_obs}, type {type(obs).__name__}, shape {getattr(obs, 'shape', None)})")
        if agent.flatten_obs:
            import gymnasium

            self.cov.inc("flattened_checked")
            try:
                back = gymnasium.spaces.unflatten(nested_space, obs)
                again = gymnasium.spaces.flatten(nested_space, back)
                if not np.array_equal(np.asarray(again), np.asarray(obs)):
                    self.v("flatten-roundtrip-mismatch", f"{where}: flatten(unflatten(obs)) != obs")
            except Exception as e:
                self.v("flatten-roundtrip-raises", f"{where}: {type(e).__name__}: {e}")

    def after_reset(self, env, obs, ep):
        self.trail.append(("reset", ep))
        os_, as_ = env.observation_space, env.action_space
        if self.obs_space is not None and self.constant:
            self.cov.inc("space_equality_checks")
            if os_ != self.obs_space:
                self.v("observation-space-changed-between-episodes", f"episode {ep}: observation space differs from the previous episode's")
            if as_ != self.act_space:
                self.v("action-space-changed-between-episodes", f"episode {ep}: action space differs")
        self.obs_space, self.act_space = os_, as_
        self.check(env, obs, f"reset ep{ep}")

    def on_env(self, env, cfg, meta):
        self.constant = isinstance(cfg, dict)

    def before_step(self, env, action):
        try:
            self.trail.append(env.agent.action_manager.action_map[action])
        except Exception:
            self.trail.append(action)

    def after_step(self, env, action, res, t):
        self.check(env, res[0], f"step {t}")


# ------------------------------------------------------------------------------------------- component level
def walk(obs_obj, path="obs"):
    """yield (path, observation object) for every node of the observation tree"""
    yield path, obs_obj
    for attr in ("components",):
        d = getattr(obs_obj, attr, None)
        if isinstance(d, dict):
            for k, v in d.items():
                yield from walk(v, f"{path}/{k}")
    for attr in ("hosts", "routers", "firewalls", "services", "applications", "folders", "files", "nics", "ports", "links"):
        lst = getattr(obs_obj, attr, None)
        if isinstance(lst, list):
            for i, v in enumerate(lst):
                if hasattr(v, "observe"):
                    yield from walk(v, f"{path}/{attr}[{i}]")
    for attr in ("acl", "internal_inbound_acl", "internal_outbound_acl", "dmz_inbound_acl", "dmz_outbound_acl",
                 "external_inbound_acl", "external_outbound_acl"):
        v = getattr(obs_obj, attr, None)
        if v is not None and hasattr(v, "observe"):
            yield from walk(v, f"{path}/{attr}")


def set_in(state, where, key, value):
    d = state
    for k in where:
        if not isinstance(d, dict) or k not in d:
            return False
        d = d[k]
    if not isinstance(d, dict):
        return False
    d[key] = value
    return True


def get_in(state, where):
    d = state
    for k in where:
        if not isinstance(d, dict) or k not in d:
            return None
        d = d[k]
    return d


def enum_values(cls):
    return [m.value for m in cls]


def component_level(seed, cov, out, family=None):
    from primaite.game.agent.observations.acl_observation import ACLObservation
    from primaite.game.agent.observations.file_system_observations import FileObservation, FolderObservation
    from primaite.game.agent.observations.host_observations import HostObservation
    from primaite.game.agent.observations.link_observation import LinkObservation
    from primaite.game.agent.observations.nic_observations import NICObservation, PortObservation
    from primaite.game.agent.observations.router_observation import RouterObservation
    from primaite.game.agent.observations.firewall_observation import FirewallObservation
    from primaite.game.agent.observations.software_observation import ApplicationObservation, ServiceObservation
    from primaite.simulator.file_system.file_system_item_abc import FileSystemItemHealthStatus
    from primaite.simulator.network.hardware.node_operating_state import NodeOperatingState
    from primaite.simulator.network.hardware.nodes.network.router import ACLAction
    from primaite.simulator.system.applications.application import ApplicationOperatingState
    from primaite.simulator.system.services.service import ServiceOperatingState
    from primaite.simulator.system.software import SoftwareHealthState

    cfg, meta = gen.gen(seed, family, {"include_nmne": True, "capture_nmne": True, "max_actions": 30})
    game = corpus.build_game(cfg)
    # produce some traffic so that the traffic dicts exist
    net = game.simulation.network
    game.simulation.pre_timestep(0)
    hs = [h for h in meta["hosts"]]
    for h in hs[1:]:
        net.get_node_by_hostname(hs[0]).ping(meta["hosts"][h]["ip"], pings=1)
    base = game.get_sim_state()
    agent = game.agents["defender"]
    root = agent.observation_manager.obs

    def judge(o, state, what, kind):
        cov.inc("component_evaluations")
        cov.hit("component_kind", kind)
        try:
            res = o.observe(state)
        except Exception as e:
            if not any(x["mech"] == f"component-observe-raises/{kind}/{type(e).__name__}" for x in out):
                out.append(viol(f"component-observe-raises/{kind}/{type(e).__name__}", f"{kind}.observe raised {type(e).__name__}: {e} for {what}",
                                {"seed": seed, "what": what}))
            return
        bad = first_bad_leaf(o.space, res)
        if bad:
            mech = f"component-out-of-space/{kind}/{leaf_kind(bad[0]) or what.split('=')[0]}"
            if not any(x["mech"] == mech for x in out):
                out.append(viol(mech, f"{kind} with {what}: leaf {bad[0]}: {bad[1]}", {"seed": seed, "what": what}))

    for path, o in walk(root):
        where = getattr(o, "where", None)
        if where is None:
            # padding slot: default observation must be in the space
            if hasattr(o, "space") and hasattr(o, "default_observation"):
                judge(o, base, "padding slot", type(o).__name__ + "(padding)")
            continue
        if isinstance(o, ServiceObservation):
            for op in enum_values(ServiceOperatingState):
                for h in enum_values(SoftwareHealthState):
                    st = copy.deepcopy(base)
                    ok = set_in(st, where, "operating_state", op) and set_in(st, where, "health_state_actual", h) and set_in(st, where, "health_state_visible", h)
                    if ok:
                        judge(o, st, f"operating_state={op},health={h}", "service")
            st = copy.deepcopy(base)
            parent = get_in(st, where[:-1])
            if isinstance(parent, dict):
                parent.pop(where[-1], None)
                judge(o, st, "uninstalled", "service")
        elif isinstance(o, ApplicationObservation):
            top = o.high_app_execution_threshold
            for op in enum_values(ApplicationOperatingState):
                for h in enum_values(SoftwareHealthState):
                    for n in (0, 1, top, top + 1, top + 3):
                        st = copy.deepcopy(base)
                        ok = (set_in(st, where, "operating_state", op) and set_in(st, where, "health_state_actual", h)
                              and set_in(st, where, "health_state_visible", h) and set_in(st, where, "num_executions", n))
                        if ok:
                            judge(o, st, f"operating_state={op},health={h},num_executions={n}", "application")
        elif isinstance(o, FileObservation):
            top = o.high_file_access_threshold
            for h in enum_values(FileSystemItemHealthStatus):
                for n in (0, 1, top, top + 1, top + 3):
                    st = copy.deepcopy(base)
                    if set_in(st, where, "health_status", h) and set_in(st, where, "visible_status", h) and set_in(st, where, "num_access", n):
                        judge(o, st, f"health={h},num_access={n}", "file")
        elif isinstance(o, FolderObservation):
            for h in enum_values(FileSystemItemHealthStatus):
                for scanned in (True, False):
                    st = copy.deepcopy(base)
                    if set_in(st, where, "health_status", h) and set_in(st, where, "visible_status", h) and set_in(st, where, "scanned_this_step", scanned):
                        judge(o, st, f"health={h},scanned={scanned}", "folder")
        elif isinstance(o, NICObservation):
            nic = get_in(base, where)
            if not isinstance(nic, dict):
                continue
            speed = nic.get("speed", 100.0)
            for enabled in (True, False):
                for frac in (0.0, 1e-9, 0.1, 0.5, 0.999, 1.0, 1.2, 2.0):
                    st = copy.deepcopy(base)
                    set_in(st, where, "enabled", enabled)
                    val = frac * speed
                    tr = {"icmp": {"inbound": val, "outbound": val}}
                    for proto, ports in (o.monitored_traffic or {}).items():
                        if str(proto).lower() != "icmp":
                            tr[str(proto).lower()] = {p: {"inbound": val, "outbound": val} for p in ports}
                    set_in(st, where, "traffic", tr)
                    judge(o, st, f"traffic={frac}xspeed,enabled={enabled}", "nic")
            for cnt in (0, 1, o.high_nmne_threshold, o.high_nmne_threshold + 1, o.high_nmne_threshold + 30):
                st = copy.deepcopy(base)
                set_in(st, where, "nmne", {"direction": {"inbound": {"keywords": {"*": cnt}}, "outbound": {"keywords": {"*": cnt}}}})
                if getattr(o, "include_nmne", False):
                    o.nmne_inbound_last_step = 0
                    o.nmne_outbound_last_step = 0
                judge(o, st, f"nmne_count={cnt}", "nic")
        elif isinstance(o, PortObservation):
            for enabled in (True, False):
                st = copy.deepcopy(base)
                if set_in(st, where, "enabled", enabled):
                    judge(o, st, f"enabled={enabled}", "port")
        elif isinstance(o, LinkObservation):
            link = get_in(base, o.where)
            if not isinstance(link, dict):
                o.observe(base)  # lets the observation swap endpoints as documented
                link = get_in(base, o.where)
            if isinstance(link, dict):
                bwid = link["bandwidth"]
                for frac in (0.0, 1e-9, 0.1, 0.5, 0.999, 1.0, 1.0000001, 2.0):
                    st = copy.deepcopy(base)
                    set_in(st, o.where, "current_load", frac * bwid)
                    judge(o, st, f"load={frac}xbandwidth", "link")
        elif isinstance(o, ACLObservation):
            acl = get_in(base, where)
            if not isinstance(acl, dict):
                continue
            ips = list(o.ip_to_id) + [None, "10.99.99.99"]
            for act in enum_values(ACLAction):
                for ip in ips[:4] + ips[-2:]:
                    for port in list(o.port_to_id)[:2] + [None, 9999]:
                        for proto in list(o.protocol_to_id)[:2] + [None]:
                            st = copy.deepcopy(base)
                            a = get_in(st, where)
                            a[0] = {"action": act, "protocol": proto, "src_ip_address": ip, "src_wildcard_mask": None, "src_port": port,
                                    "dst_ip_address": ip, "dst_wildcard_mask": "0.0.0.255", "dst_port": port, "match_count": 0}
                            judge(o, st, f"rule action={act},ip={ip},port={port},proto={proto}", "acl")
        elif isinstance(o, (HostObservation, RouterObservation, FirewallObservation)):
            kind = type(o).__name__.replace("Observation", "").lower()
            for op in enum_values(NodeOperatingState):
                st = copy.deepcopy(base)
                if set_in(st, where, "operating_state", op):
                    judge(o, st, f"operating_state={op}", kind)
            if isinstance(o, HostObservation) and get_in(base, where) is not None:
                for n in (0, 1, 3, 4, 6):
                    st = copy.deepcopy(base)
                    set_in(st, where + ["file_system"], "num_file_creations", n)
                    set_in(st, where + ["file_system"], "num_file_deletions", n)
                    judge(o, st, f"num_file_creations={n}", "host")
            if get_in(base, where) is not None and getattr(o, "include_users", False):
                for k in (0, 1, 3, 5):
                    st = copy.deepcopy(base)
                    set_in(st, where + ["services", "user-session-manager"], "active_remote_sessions", [f"s{i}" for i in range(k)])
                    set_in(st, where + ["services", "user-session-manager"], "current_local_user", "admin" if k % 2 else None)
                    judge(o, st, f"remote_sessions={k}", kind)
    return meta


class Check:
    pid = "C02"
    level = "exploration"
    rule = ("env level: the C01 scenario corpus (shipped, assets, generated lan/routed/dmz with nested and flattened observation "
            "spaces, NMNE on/off, monitored traffic, access counts, users, scan-gated or true health, slot counts larger and "
            "smaller than the component counts, unknown hosts) stepped under random/adversarial/power policies plus traffic-heavy "
            "knobs; every returned observation checked with Space.contains + leaf walker; spaces compared across episodes. "
            "component level (exhaustive over the listed value sets): every observation object of generated defender trees x "
            "every member of the live simulator enums x counts 0..top+3 x traffic/load 0..2x capacity. Non-trivial env case: >=30 "
            "observations checked with >=5 distinct action types; distinct by (scenario, policy, seed).")
    assumptions = [
        "a configuration is in scope if the schemas accept it (include_nmne with capture off included)",
        "synthetic component-level states are real describe_state() dicts with single fields overwritten by values of the live enums / counts",
    ]
    min_monitor = {"observations_checked": 2000, "component_evaluations": 5000, "space_equality_checks": 50, "flattened_checked": 300}
    case_timeout = {"quick": 1500, "thorough": 7200}

    def cases(self, tier, seed):
        q = tier == "quick"
        specs = []
        for s in range(8 if q else 48):
            specs.append({"name": f"component-{seed * 100 + s}", "kind": "component", "seed": seed * 100 + s,
                          "family": ["lan", "routed", "dmz", "routed"][s % 4]})
        pols = ["random", "adversarial", "power", "quiet"]
        for i, f in enumerate(envrun.SHIPPED_SINGLE):
            specs.append({"name": f"shipped-{f}", "kind": "env", "src": ["shipped", f], "policy": pols[i % 3], "seed": seed * 100 + i,
                          "episodes": 2, "steps": 40 if q else 300, "max_len": 32 if q else None})
        for i, f in enumerate(envrun.SHIPPED_FOLDERS):
            specs.append({"name": f"folder-{f}", "kind": "env", "src": ["folder", f], "policy": "random", "seed": seed * 100 + i,
                          "episodes": 3 if q else 6, "steps": 20 if q else 200})
        for i, f in enumerate(envrun.TEST_ASSETS):
            specs.append({"name": f"asset-{f}", "kind": "env", "src": ["asset", f], "policy": pols[i % 4], "seed": seed * 100 + i,
                          "episodes": 2, "steps": 24 if q else 128, "max_len": 20 if q else None})
        for s in range(64 if q else 320):
            sd = seed * 1000 + s
            knobs = {}
            if s % 4 == 0:
                knobs = {"include_nmne": True, "capture_nmne": False}  # schema-valid: NMNE observed but not captured
            elif s % 4 == 1:
                knobs = {"include_nmne": True, "capture_nmne": True}
            specs.append({"name": f"gen-{sd}", "kind": "env", "src": ["gen", {"seed": sd, "knobs": knobs}], "policy": pols[s % 4], "seed": sd,
                          "episodes": 2, "steps": 40 if q else 96})
        for s in range(10 if q else 48):  # wireless-router family (router observations of wireless routers, NMNE over the air)
            sd = seed * 1000 + 300 + s
            specs.append({"name": f"gen-wlan-{sd}", "kind": "env", "src": ["gen", {"seed": sd, "family": "wlan", "knobs": {"include_nmne": True, "capture_nmne": bool(s % 2)}}],
                          "policy": pols[s % 4], "seed": sd, "episodes": 2, "steps": 40 if q else 96})
        # file-system histories spanning several steps (delete now, restore / delete again later through terminal commands), access and
        # creation / deletion counters observed, nested and flattened
        for s in range(16 if q else 64):
            sd = seed * 1000 + 400 + s
            specs.append({"name": f"gen-fscycle-{sd}", "kind": "env", "src": ["gen", {"seed": sd, "knobs": {"include_num_access": True, "flatten": bool(s % 2)}}],
                          "policy": "fscycle", "seed": sd, "episodes": 2, "steps": 50 if q else 96})
        return specs

    def run_case(self, spec):
        cov, out = Cov(), []
        if spec["kind"] == "component":
            component_level(spec["seed"], cov, out, spec.get("family"))
            return {"violations": out, "cov": cov.d, "nontrivial": cov.d.get("component_evaluations", 0) > 100, "digest": digest(spec),
                    "sample": {"case": spec, "evaluations": cov.d.get("component_evaluations"), "kinds": cov.d.get("component_kind")}}
        kind, name = spec["src"]
        cfg, meta = envrun.scenario_source(kind, name)
        if isinstance(cfg, dict) and envrun.n_proxy_agents(cfg) != 1:
            return {"violations": [], "cov": cov.d, "nontrivial": False, "digest": digest(spec), "sample": {"case": spec, "skipped": True}}
        mon = SpaceMonitor(cov, out, {"scenario": spec["src"], "policy": spec["policy"], "seed": spec["seed"]})
        st = envrun.run_env(cfg, meta, [mon], spec["episodes"], spec["steps"], spec["policy"], spec["seed"], max_len=spec.get("max_len"))
        nontrivial = cov.d.get("observations_checked", 0) >= 30 and len(st["actions"]) >= 5
        return {"violations": out, "cov": cov.d, "nontrivial": nontrivial, "digest": digest([spec["src"], spec["policy"], spec["seed"]]),
                "sample": {"case": spec, "observations_checked": cov.d.get("observations_checked"), "crash": st.get("crash")}}


CHECK = Check()
