"""C12 - node power state machine, timing and gating.

Monitors: field-write tap on Node.operating_state (edges), reference power FSM stepped by the same events (dwell
times), invariants at quiescent points (interfaces disabled / no software running when not ON, come-back on return to
ON), frame taps (no frame accepted or emitted by a node that is not ON), software taps (no apply_timestep / receive on a
node that is not ON), request gating (every request other than startup refused when not ON).
Workload: bounded-exhaustive event sequences on a small network per node type x durations; random deeper.
"""
from __future__ import annotations

import itertools
import random

from pv import corpus, probes
from pv.harness import Cov, digest, viol

EVENTS = ["shutdown", "startup", "reset", "tick", "other", "traffic_in", "traffic_svc", "emit"]
NODE_TYPES = ["computer", "server", "switch", "router", "firewall", "wireless-router"]
ON, OFF, BOOT, DOWN = "ON", "OFF", "BOOTING", "SHUTTING_DOWN"
EDGES = {(ON, DOWN), (DOWN, OFF), (OFF, BOOT), (BOOT, ON)}


def scenario(ntype, d_on, d_off):
    n = corpus.Net()
    dur = dict(start_up_duration=d_on, shut_down_duration=d_off)
    z = dict(start_up_duration=0, shut_down_duration=0)
    if ntype in ("computer", "server"):
        n.switch("sw1", 4, **z)
        n.host("peer", "192.168.1.10", **z, applications=[{"type": "database-client", "options": {"db_server_ip": "192.168.1.20"}}])
        n.host("N", "192.168.1.20", kind=ntype, **dur,
               services=[{"type": "database-service"}, {"type": "ftp-server"}],
               applications=[{"type": "database-client", "options": {"db_server_ip": "192.168.1.10"}}])
        n.node("peer")["services"] = [{"type": "database-service"}]
        n.to_switch("sw1", "peer")
        n.to_switch("sw1", "N")
        return n.scenario(), ("peer", "192.168.1.20", None)
    if ntype == "switch":
        n.switch("N", 4, **dur)
        n.host("peer", "192.168.1.10", **z, applications=[{"type": "database-client", "options": {"db_server_ip": "192.168.1.30"}}])
        n.host("far", "192.168.1.30", kind="server", **z, services=[{"type": "database-service"}])
        n.to_switch("N", "peer")
        n.to_switch("N", "far")
        return n.scenario(), ("peer", "192.168.1.30", "far")
    if ntype == "router":
        n.router("N", {1: ("10.0.1.1", "255.255.255.0"), 2: ("10.0.2.1", "255.255.255.0")}, acl={0: {"action": "PERMIT"}}, **dur)
        n.host("peer", "10.0.1.10", gw="10.0.1.1", **z, applications=[{"type": "database-client", "options": {"db_server_ip": "10.0.2.30"}}])
        n.host("far", "10.0.2.30", gw="10.0.2.1", kind="server", **z, services=[{"type": "database-service"}])
        n.link("peer", 1, "N", 1)
        n.link("far", 1, "N", 2)
        return n.scenario(), ("peer", "10.0.2.30", "far")
    if ntype == "firewall":
        allow = {0: {"action": "PERMIT"}}
        n.firewall("N", external=("10.0.1.1", "255.255.255.0"), internal=("10.0.2.1", "255.255.255.0"),
                   acl={k: dict(allow) for k in ("internal_inbound_acl", "internal_outbound_acl", "dmz_inbound_acl",
                                                 "dmz_outbound_acl", "external_inbound_acl", "external_outbound_acl")}, **dur)
        n.host("peer", "10.0.1.10", gw="10.0.1.1", **z, applications=[{"type": "database-client", "options": {"db_server_ip": "10.0.2.30"}}])
        n.host("far", "10.0.2.30", gw="10.0.2.1", kind="server", **z, services=[{"type": "database-service"}])
        n.link("peer", 1, "N", 1)
        n.link("far", 1, "N", 2)
        return n.scenario(), ("peer", "10.0.2.30", "far")
    if ntype == "wireless-router":
        n.nodes.append({"type": "wireless-router", "hostname": "N", **dur,
                        "router_interface": {"ip_address": "192.168.0.1", "subnet_mask": "255.255.255.0"},
                        "wireless_access_point": {"ip_address": "192.168.1.1", "subnet_mask": "255.255.255.0", "frequency": "WIFI_2_4"},
                        "acl": {1: {"action": "PERMIT"}},
                        "routes": [{"address": "192.168.2.0", "subnet_mask": "255.255.255.0", "next_hop_ip_address": "192.168.1.2", "metric": 0}]})
        n.nodes.append({"type": "wireless-router", "hostname": "R2", **z,
                        "router_interface": {"ip_address": "192.168.2.1", "subnet_mask": "255.255.255.0"},
                        "wireless_access_point": {"ip_address": "192.168.1.2", "subnet_mask": "255.255.255.0", "frequency": "WIFI_2_4"},
                        "acl": {1: {"action": "PERMIT"}},
                        "routes": [{"address": "192.168.0.0", "subnet_mask": "255.255.255.0", "next_hop_ip_address": "192.168.1.1", "metric": 0}]})
        n.host("peer", "192.168.0.2", gw="192.168.0.1", **z, applications=[{"type": "database-client", "options": {"db_server_ip": "192.168.2.2"}}])
        n.host("far", "192.168.2.2", gw="192.168.2.1", kind="server", **z, services=[{"type": "database-service"}])
        n.link("peer", 1, "N", 2)
        n.link("far", 1, "R2", 2)
        return n.scenario(), ("peer", "192.168.2.2", "far")
    raise ValueError(ntype)


class RefPower:
    """documented convention: completes on the (d+1)-th apply_timestep after the power_on/off call; d == 0: immediately."""

    def __init__(self, d_on, d_off):
        self.d_on, self.d_off = d_on, d_off
        self.state = ON
        self.left = 0
        self.resetting = False

    def _power_on(self):
        if self.d_on <= 0:
            self.state = ON
        else:
            self.state, self.left = BOOT, self.d_on + 1

    def request(self, ev):
        """-> accepted?"""
        if ev == "startup":
            if self.state != OFF:
                return False
            self._power_on()
            return True
        if ev in ("shutdown", "reset"):
            if self.state != ON:
                return False
            if ev == "reset":
                self.resetting = True
            if self.d_off <= 0:
                self.state = OFF
                if self.resetting:  # a reset is a shutdown followed by an automatic start
                    self.resetting = False
                    self._power_on()
            else:
                self.state, self.left = DOWN, self.d_off + 1
            return True
        raise ValueError(ev)

    def tick(self):
        if self.state in (BOOT, DOWN):
            self.left -= 1
            if self.left == 0:
                if self.state == BOOT:
                    self.state = ON
                else:
                    self.state = OFF
                    if self.resetting:
                        self.resetting = False
                        self._power_on()


class PowerMonitor:
    def __init__(self, cov, out, ctx, ntype):
        self.cov, self.out, self.ctx, self.ntype = cov, out, ctx, ntype
        self.log = []
        self.N = None
        self.armed = False

    def v(self, mech, msg):
        if not any(o["mech"] == mech for o in self.out):
            self.out.append(viol(mech, msg, {"ctx": self.ctx, "events": list(self.log)}))

    def nstate(self):
        return self.N.operating_state.name

    def install(self):
        from primaite.simulator.network.airspace import WirelessNetworkInterface
        from primaite.simulator.network.hardware.base import Node, WiredNetworkInterface
        from primaite.simulator.network.hardware.nodes.host.host_node import NIC
        from primaite.simulator.network.hardware.nodes.network.router import RouterInterface
        from primaite.simulator.network.hardware.nodes.network.switch import SwitchPort
        from primaite.simulator.system.applications.application import Application
        from primaite.simulator.system.core.session_manager import SessionManager
        from primaite.simulator.system.services.service import Service

        mon = self

        def on_state(node, field, old, new):
            if not mon.armed or node is not mon.N or old is None or old == new:
                return
            mon.cov.inc("state_writes")
            e = (old.name, new.name)
            mon.cov.hit("edges", f"{e[0]}->{e[1]}")
            if e in EDGES:
                return
            d_on, d_off = node.config.start_up_duration, node.config.shut_down_duration
            if e == (ON, OFF) and d_off <= 0:
                return  # instantaneous shutdown
            if e == (OFF, ON) and d_on <= 0:
                return  # instantaneous start
            mon.v(f"illegal-transition/{e[0]}->{e[1]}", f"node {node.config.hostname} ({mon.ntype}) moved {e[0]} -> {e[1]} "
                  f"(durations on={d_on} off={d_off})")

        probes.tap_setattr(Node, ["operating_state"], on_state)

        def owner(nic):
            return getattr(nic, "_connected_node", None)

        def post_send(nic, tok, res, exc, frame):
            node = owner(nic)
            if mon.armed and node is mon.N:
                mon.cov.inc("send_attempts_N")
                if res and mon.nstate() != ON:
                    mon.v("emits-frame-while-not-on", f"{mon.ntype} N sent a frame on {nic} while {mon.nstate()}")

        def post_recv(nic, tok, res, exc, frame):
            node = owner(nic)
            if mon.armed and node is mon.N:
                mon.cov.inc("frames_offered_to_N")
                if mon.nstate() != ON:
                    mon.cov.inc("frames_offered_to_N_while_not_on")
                    if res:
                        mon.v("accepts-frame-while-not-on", f"{mon.ntype} N interface {nic} accepted a frame while {mon.nstate()}")

        for cls in (WiredNetworkInterface, SwitchPort, WirelessNetworkInterface):
            if "send_frame" in cls.__dict__:
                probes.wrap(cls, "send_frame", None, post_send)
        for cls in (NIC, SwitchPort, RouterInterface, WirelessNetworkInterface):
            if "receive_frame" in cls.__dict__:
                probes.wrap(cls, "receive_frame", None, post_recv)
        from primaite.simulator.network.hardware.nodes.network.wireless_router import WirelessAccessPoint

        if "receive_frame" in WirelessAccessPoint.__dict__:
            probes.wrap(WirelessAccessPoint, "receive_frame", None, post_recv)

        def pre_sm(sm, *a, **k):
            node = getattr(sm, "node", None)
            if mon.armed and node is mon.N and mon.nstate() != ON:
                mon.v("session-manager-handles-frame-while-not-on", f"{mon.ntype} N session manager received a frame while {mon.nstate()}")

        probes.wrap(SessionManager, "receive_frame", pre_sm, None)

        def pre_tick_sw(sw, *a, **k):
            node = getattr(getattr(sw, "software_manager", None), "node", None)
            if mon.armed and node is mon.N:
                mon.cov.inc("software_ticks_N")
                if mon.nstate() != ON:
                    mon.v("software-ticks-while-not-on", f"{sw.name}.apply_timestep ran while N is {mon.nstate()}")

        probes.wrap(Service, "apply_timestep", pre_tick_sw, None)
        probes.wrap(Application, "apply_timestep", pre_tick_sw, None)

    def invariants(self, after):
        N = self.N
        st = self.nstate()
        self.cov.inc("invariant_evals")
        self.cov.hit("state_x_event", f"{self.ntype}|{st}|{after}")
        if st != ON:
            en = [str(i) for i in N.network_interface.values() if i.enabled]
            if en:
                kind = "instant" if N.config.shut_down_duration <= 0 else "timed"
                self.v(f"interface-enabled-while-not-on/{kind}-shutdown", f"{self.ntype} N is {st} after {after} but interfaces enabled: {en}")
        if st == OFF:
            sw = N.software_manager.software
            run = [s.name for s in list(N.services.values()) + list(sw.values()) if getattr(s, "operating_state", None) is not None
                   and s.operating_state.name == "RUNNING"]
            if run:
                self.v("software-running-while-off", f"{self.ntype} N is OFF after {after} but running: {sorted(set(run))}")


def snapshot_up(N):
    nics = [p for p, i in N.network_interface.items() if i.enabled and getattr(i, "_connected_link", True)]
    sw = {}
    for s in N.software_manager.software.values():
        if getattr(s, "operating_state", None) is not None and s.operating_state.name == "RUNNING":
            sw[s.name] = s
    return nics, sw


OTHER_REQS = {
    "host": [["os", "scan"], ["service", "ftp-server", "stop"], ["service", "ftp-server", "start"], ["network_interface", 1, "disable"],
             ["network_interface", 1, "enable"], ["file_system", "create", "folder", "x"], ["scan"], ["application", "database-client", "execute"],
             ["software_manager", "application", "install", "dos-bot"], ["service", "database-service", "restart"]],
    "net": [["os", "scan"], ["scan"], ["file_system", "create", "folder", "x"], ["network_interface", 1, "disable"], ["network_interface", 1, "enable"]],
    "router": [["acl", "add_rule", "PERMIT", "tcp", "ALL", "NONE", "ALL", "ALL", "NONE", "ALL", 5], ["acl", "remove_rule", 5]],
}


def run_seq(ntype, d_on, d_off, events, cov, out, ctx):
    probes.uninstall_all()
    mon = PowerMonitor(cov, out, ctx, ntype)
    mon.install()
    try:
        cfg, (peer_name, target_ip, far_name) = scenario(ntype, d_on, d_off)
        game = corpus.build_game(cfg)
        sim = game.simulation
        net = sim.network
        N = net.get_node_by_hostname("N")
        peer = net.get_node_by_hostname(peer_name)
        mon.N = N
        if N.operating_state.name != ON:
            raise RuntimeError("node under test did not come up ON")
        # warm up: one exchange so ARP/MAC tables exist
        sim.pre_timestep(0)
        peer.ping(target_ip, pings=1)
        mon.armed = True
        ref = RefPower(d_on, d_off)
        t = 0
        up_before = None
        other_i = 0
        pending_reset_deadline = None
        reqs = OTHER_REQS["host"] if ntype in ("computer", "server") else OTHER_REQS["net"] + (OTHER_REQS["router"] if ntype in ("router", "firewall", "wireless-router") else [])
        events = list(events)
        drain_left = 2 * (d_on + d_off) + 6
        i = -1
        while True:
            i += 1
            if i < len(events):
                ev = events[i]
            else:
                # drain: bring N back to ON so that every word also exercises the come-back clause
                if ref.state == ON or drain_left <= 0:
                    break
                drain_left -= 1
                ev = "startup" if ref.state == OFF else "tick"
            mon.log.append(ev)
            st_before = mon.nstate()
            if ev in ("shutdown", "startup", "reset"):
                if st_before == ON and ev in ("shutdown", "reset"):
                    up_before = snapshot_up(N)
                resp = sim.apply_request(["network", "node", "N", ev])
                exp_ok = ref.request(ev)
                mon.log[-1] = f"{ev}:{resp.status}"
                cov.hit("power_requests", f"{ev}|{st_before}|{resp.status}")
                if exp_ok and resp.status != "success":
                    mon.v(f"power-request-refused/{ev}", f"{ev} refused ({resp.status}) while N was {st_before}")
                if not exp_ok and resp.status == "success":
                    mon.v(f"power-request-accepted-in-wrong-state/{ev}", f"{ev} answered success while N was {st_before}")
            elif ev == "tick":
                t += 1
                sim.apply_timestep(t)
                ref.tick()
                sim.pre_timestep(t)
            elif ev == "other":
                req = reqs[other_i % len(reqs)]
                other_i += 1
                try:
                    resp = sim.apply_request(["network", "node", "N"] + req)
                    status = resp.status
                except Exception as e:  # raising handlers are C05's business; here only gating matters
                    status = f"raised {type(e).__name__}"
                mon.log[-1] = f"other:{req}:{status}"
                cov.inc("other_requests")
                if st_before != ON:
                    cov.inc("requests_offered_to_N_while_not_on")
                    if status == "success" or status.startswith("raised"):
                        mon.v("request-not-refused-while-not-on", f"request {req} answered {status} while N was {st_before}")
            elif ev == "traffic_in":
                if st_before != ON:
                    cov.inc("traffic_ops_while_N_not_on")
                peer.ping(target_ip, pings=1)
            elif ev == "traffic_svc":
                if st_before != ON:
                    cov.inc("traffic_ops_while_N_not_on")
                c = peer.software_manager.software["database-client"]
                conn = c.get_new_connection()
                if conn:
                    conn.query("SELECT")
                    conn.disconnect()
            elif ev == "reconf":
                # the documented Python-level way to (re)configure / enable interfaces, called in whatever power state N is in: while N is not ON
                # it must leave every interface disabled (checked by the invariants below); values are the present ones, so nothing else changes
                cov.inc("reconfigure_calls")
                if st_before != ON:
                    cov.inc("reconfigure_calls_while_not_on")
                try:
                    if ntype == "wireless-router":
                        ap, ri = N.network_interface[1], N.network_interface[2]
                        N.configure_wireless_access_point(ip_address=str(ap.ip_address), subnet_mask=str(ap.subnet_mask), frequency=ap.frequency)
                        N.configure_router_interface(ip_address=str(ri.ip_address), subnet_mask=str(ri.subnet_mask))
                    elif ntype in ("router", "firewall"):
                        for pnum, itf in list(N.network_interface.items())[:2]:
                            N.configure_port(port=pnum, ip_address=str(itf.ip_address), subnet_mask=str(itf.subnet_mask))
                            N.enable_port(pnum)
                    else:
                        for itf in N.network_interface.values():
                            itf.enable()
                except Exception as e:
                    mon.log[-1] = f"reconf:raised {type(e).__name__}"
                    cov.inc("reconfigure_calls_raised")
                if st_before == ON:
                    # administratively disabled interfaces were switched on by this: the come-back snapshot is taken at the next shutdown anyway
                    pass
            elif ev == "emit":
                if st_before != ON:
                    cov.inc("traffic_ops_while_N_not_on")
                # software inside N tries to emit (what a scripted/red application would do)
                tgt = peer.network_interface[1].ip_address
                icmp = N.software_manager.icmp
                if icmp is not None:
                    icmp.ping(tgt, 1)
                for nic in N.network_interface.values():
                    pass
            # ---- compare with the reference FSM
            real = mon.nstate()
            if real != ref.state:
                if ev in ("reset", "tick") and d_off <= 0 and ref.state in (BOOT, ON) and real == OFF and N.config.is_resetting:
                    mon.v("reset-with-zero-shutdown-duration-never-restarts", f"after {mon.log}: N is OFF with is_resetting=True; "
                          f"a reset is a shutdown followed by an automatic start (reference: {ref.state})")
                    break
                mon.v(f"power-timing/{ref.state}-expected-{real}-observed", f"after events {mon.log}: N is {real}, reference FSM says {ref.state} "
                      f"(durations on={d_on} off={d_off})")
                break
            if real == ON and st_before != ON and up_before is not None:
                nics, sw = up_before
                down = [p for p in nics if not N.network_interface[p].enabled]
                if down:
                    mon.v("interface-not-reenabled-on-return-to-on", f"N back ON but interfaces {down} (enabled before shutdown) are disabled")
                notup = [n for n, s in sw.items() if N.software_manager.software.get(n) is s and s.operating_state.name != "RUNNING"]
                if notup:
                    mon.v("software-not-restarted-on-return-to-on", f"N back ON but {notup} (running before shutdown) are {[sw[n].operating_state.name for n in notup]}")
                cov.inc("come_back_checks")
                up_before = None
            mon.invariants(ev.split(":")[0])
            if out:
                break
        return mon
    finally:
        probes.uninstall_all()


DUR_QUICK = [(0, 0), (1, 1), (2, 1), (0, 2), (3, 0)]
DUR_THOROUGH = [(0, 0), (1, 1), (2, 1), (0, 2), (3, 0), (1, 3), (2, 2), (3, 3)]


class Check:
    pid = "C12"
    level = "exploration"
    rule = ("case = (node type in {computer, server, switch, router, firewall, wireless-router}) x (start-up, shut-down "
            "durations) x every event sequence of length DEPTH over {shutdown, startup, reset, tick, other request (rotating "
            "over os scan / service stop,start,restart / nic disable,enable / folder create / node scan / app execute / app "
            "install / acl add,remove), inbound ping, inbound db connect+query (through N for network nodes), software inside N "
            "emitting a ping}, on a 2-3 node network; plus random sequences of length 14. Non-trivial sequence: N left ON at "
            "least once and >=1 frame or request was offered while it was not ON; distinct by (type, durations, event word).")
    assumptions = [
        "timing convention from docs base_hardware.rst: a transition completes on the (d+1)-th apply_timestep after the power_on/off call, d=0 immediately; applied to reset's automatic start too",
        "'come back up' = interfaces enabled and software RUNNING immediately before the accepted shutdown/reset",
        "software 'does no work' is observed as: no Service/Application.apply_timestep, no frame accepted/emitted, no session-manager delivery while N is not ON",
    ]
    min_monitor = {"invariant_evals": 5000, "traffic_ops_while_N_not_on": 200, "requests_offered_to_N_while_not_on": 200,
                   "come_back_checks": 100, "state_writes": 1000}
    case_timeout = {"quick": 1500, "thorough": 5400}

    def cases(self, tier, seed):
        specs = []
        depth = 4 if tier == "quick" else 5
        durs = DUR_QUICK if tier == "quick" else DUR_THOROUGH
        for nt in NODE_TYPES:
            for (a, b) in durs:
                for first in range(len(EVENTS)):
                    specs.append({"name": f"exh-{nt}-{a}{b}-{first}", "kind": "exh", "ntype": nt, "d_on": a, "d_off": b,
                                  "depth": depth, "first": first})
        for nt in NODE_TYPES:
            for s in range(3 if tier == "quick" else 8):
                specs.append({"name": f"rand-{nt}-{seed * 100 + s}", "kind": "rand", "ntype": nt, "seed": seed * 100 + s,
                              "n": 60 if tier == "quick" else 250, "len": 14})
        return specs

    def run_case(self, spec):
        cov, out = Cov(), []
        words = set()
        nontriv = 0

        def one(nt, a, b, evs):
            nonlocal nontriv
            before = (cov.d.get("traffic_ops_while_N_not_on", 0), cov.d.get("requests_offered_to_N_while_not_on", 0), cov.d.get("state_writes", 0))
            run_seq(nt, a, b, evs, cov, out, {"ntype": nt, "d_on": a, "d_off": b, "events": evs})
            cov.inc("sequences")
            after = (cov.d.get("traffic_ops_while_N_not_on", 0), cov.d.get("requests_offered_to_N_while_not_on", 0), cov.d.get("state_writes", 0))
            if after[2] > before[2] and (after[0] > before[0] or after[1] > before[1]):
                nontriv += 1
                words.add(digest([nt, a, b, evs]))

        if spec["kind"] == "exh":
            # only words that contain a power event can leave ON; others are trivial prefixes: still run (cheap) for gating of ON
            for tail in itertools.product(range(len(EVENTS)), repeat=spec["depth"] - 1):
                evs = [EVENTS[spec["first"]]] + [EVENTS[i] for i in tail]
                if not any(e in ("shutdown", "reset") for e in evs):
                    continue
                one(spec["ntype"], spec["d_on"], spec["d_off"], evs)
                if len(out) >= 4:
                    break
        else:
            rnd = random.Random(spec["seed"])
            for _ in range(spec["n"]):
                a, b = rnd.choice([0, 1, 2, 3]), rnd.choice([0, 1, 2, 3])
                evs = [rnd.choice(EVENTS + ["tick", "tick", "shutdown", "reset", "reconf", "reconf"]) for _ in range(spec["len"])]
                one(spec["ntype"], a, b, evs)
                if len(out) >= 4:
                    break
        cov.inc("nontrivial_sequences", nontriv)
        cov.d["words"] = sorted(words)[:2000]
        return {"violations": out, "cov": cov.d, "nontrivial": nontriv > 0, "digest": digest(spec),
                "sample": {"case": spec, "sequences": cov.d.get("sequences"), "nontrivial": nontriv}}

    def post(self, specs, results, tier, seed):
        w = set()
        for r in results:
            if r and "cov" in r:
                w |= set(r["cov"].get("words", []))
        return {"digests": sorted(w)}


CHECK = Check()
