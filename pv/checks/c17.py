"""C17 - database: password-gated connections, connection-gated queries, restorable data.

Monitors (attached from outside):
  * wrapper on DatabaseService.receive / send / _process_sql: one record per payload that reaches the server (payload,
    source ip, service/node state, file health before/after, connection table before/after, reply, "query was
    executed"), judged by the reference model pv.models.db_ref.DbRef - this is the SERVER-side gate, whoever the client
    is (DatabaseClient, raw forged payloads, DataManipulationBot, RansomwareScript);
  * wrapper on DatabaseService.backup_database / restore_backup: every call (harness, tick 1, end of fix) is judged;
  * client-side comparison after every op: a connection / query success reported by the client must be backed by a
    server grant in the same op and must not happen while the path is blocked; ids the clients hold must have been
    issued by the server; the connection table never exceeds max_sessions; file health read from the file object.
Workload: scripted clause scenarios + bounded-exhaustive words + random sequences over the quantifier's alphabet on a
switched LAN and on a routed network (router ACL, DENY rule at position 0 = "path blocked").
"""
from __future__ import annotations

import itertools
import random

from pv import corpus, probes
from pv.harness import Cov, digest, viol
from pv.models.db_ref import DbRef, World, sql_class

PG = "SELECT * FROM pg_stat_activity"
SQLS = ["SELECT", "INSERT", "DELETE", "ENCRYPT", "DROP TABLE users", PG]
PW_KINDS = ["right", "wrong_sub", "wrong_super", "wrong_case", "wrong_other", "empty", "none"]
ID_KINDS = ["never", "closed", "none", "other_open", "own_open"]
BW = 1000000  # Mbit/s: link capacity is C18's business, keep it out of the way (database.db is 40 Mbit)

_am = None


def form(action, **opts):
    global _am
    from primaite.game.agent.actions import ActionManager

    if _am is None:
        _am = ActionManager()
    return _am.form_request(action, opts)


# ------------------------------------------------------------------------------------------------ scenarios
def scenario(topo, pw, bot_pw, dur, fix_d):
    z = dict(start_up_duration=0, shut_down_duration=0)
    d = dict(start_up_duration=dur, shut_down_duration=dur)
    n = corpus.Net()
    if topo == "lan":
        ips = {"c1": "192.168.1.11", "c2": "192.168.1.12", "srv": "192.168.1.20", "bak": "192.168.1.30"}
        gw = {}
    else:
        ips = {"c1": "10.0.1.11", "c2": "10.0.1.12", "srv": "10.0.2.20", "bak": "10.0.3.30"}
        gw = {"c1": "10.0.1.1", "c2": "10.0.1.1", "srv": "10.0.2.1", "bak": "10.0.3.1"}
        acl = {1: {"action": "PERMIT", "protocol": "TCP", "src_port": "POSTGRES_SERVER", "dst_port": "POSTGRES_SERVER"},
               2: {"action": "PERMIT", "protocol": "TCP", "src_port": "FTP", "dst_port": "FTP"},
               3: {"action": "PERMIT", "src_port": "ARP", "dst_port": "ARP"},
               4: {"action": "PERMIT", "protocol": "ICMP"}}
        n.router("r1", {1: ("10.0.1.1", "255.255.255.0"), 2: ("10.0.2.1", "255.255.255.0"), 3: ("10.0.3.1", "255.255.255.0")}, acl=acl, **z)

    def apps():
        a = [{"type": "database-client", "options": {"db_server_ip": ips["srv"], "server_password": pw}},
             {"type": "data-manipulation-bot", "options": {"server_ip": ips["srv"], "server_password": bot_pw, "payload": "DELETE",
                                                          "port_scan_p_of_success": 1.0, "data_manipulation_p_of_success": 1.0, "repeat": True}},
             {"type": "ransomware-script", "options": {"server_ip": ips["srv"], "server_password": bot_pw, "payload": "ENCRYPT"}}]
        return a

    for c in ("c1", "c2"):
        n.host(c, ips[c], gw=gw.get(c), **d, applications=apps())
    n.host("srv", ips["srv"], gw=gw.get("srv"), kind="server", **d,
           services=[{"type": "database-service", "options": {"backup_server_ip": ips["bak"], "db_password": pw, "fixing_duration": fix_d}}])
    n.host("bak", ips["bak"], gw=gw.get("bak"), kind="server", **d, services=[{"type": "ftp-server"}])
    if topo == "lan":
        n.switch("sw1", 8, **z)
        for h in ("c1", "c2", "srv", "bak"):
            n.to_switch("sw1", h, bandwidth=BW)
    else:
        for i, s in enumerate(("sw1", "sw2", "sw3"), 1):
            n.switch(s, 4, **z)
            n.link(s, 1, "r1", i, bandwidth=BW)
            n._swport[s] = 1
        n.to_switch("sw1", "c1", bandwidth=BW)
        n.to_switch("sw1", "c2", bandwidth=BW)
        n.to_switch("sw2", "srv", bandwidth=BW)
        n.to_switch("sw3", "bak", bandwidth=BW)
    return n.scenario(), ips


# ------------------------------------------------------------------------------------------------ monitor
class DbMonitor:
    def __init__(self, cov, out, ctx):
        self.cov, self.out, self.ctx = cov, out, ctx
        self.db = None
        self.world = None
        self.ref = None
        self.stack = []
        self.exch = []  # records of the current op
        self.log = []
        self.armed = False
        self.violated = False

    def v(self, mech, msg):
        self.violated = True  # the sequence stops here even when this mechanism was already recorded by an earlier sequence
        if len(self.out) < 8 and not any(o["mech"] == mech for o in self.out):
            self.out.append(viol(mech, msg, {"ctx": self.ctx, "ops": [list(map(str, o)) for o in self.log[-60:]], "n_ops": len(self.log)}))

    def install(self):
        import primaite.game.game  # noqa: F401  (import order: resolves the forward references of the software classes)
        from primaite.simulator.system.services.database.database_service import DatabaseService

        mon = self

        def mine(svc):
            return mon.armed and svc is mon.db

        def pre_recv(svc, payload, session_id=None, **kw):
            if not mine(svc):
                return None
            w = mon.world
            frame = kw.get("frame")
            try:
                src = str(frame.ip.src_ip_address)
            except Exception:
                src = None
            p = payload if isinstance(payload, dict) else {}
            rec = {"type": p.get("type"), "password": p.get("password"), "sql": p.get("sql"), "connection_id": p.get("connection_id"),
                   "src_ip": src, "svc_state": w.svc_state(), "node_state": w.node_state(), "svc_health": w.svc_health(),
                   "health_before": w.file_health(), "conns_before": w.connections(), "reply": None, "ran_sql": False}
            mon.stack.append(rec)
            return rec

        def post_recv(svc, rec, res, exc, payload, session_id=None, **kw):
            if rec is None:
                return
            if mon.stack and mon.stack[-1] is rec:
                mon.stack.pop()
            w = mon.world
            rec["health_after"] = w.file_health()
            rec["conns_after"] = w.connections()
            rec["raised"] = None if exc is None else type(exc).__name__
            mon.cov.inc("exchanges_judged")
            for mech, msg in mon.ref.judge_exchange(rec):
                mon.v(mech, msg + f" [payload from {rec['src_ip']}]")
            mon.exch.append(rec)

        probes.wrap(DatabaseService, "receive", pre_recv, post_recv)

        def pre_send(svc, payload, session_id=None, **kw):
            if mine(svc) and mon.stack and isinstance(payload, dict):
                mon.stack[-1]["reply"] = dict(payload)

        probes.wrap(DatabaseService, "send", pre_send, None)

        def pre_sql(svc, *a, **k):
            if mine(svc) and mon.stack:
                mon.stack[-1]["ran_sql"] = True
            elif mine(svc):
                mon.cov.inc("diag:process_sql_outside_receive")

        if "_process_sql" in DatabaseService.__dict__:
            probes.wrap(DatabaseService, "_process_sql", pre_sql, None)

        def pre_br(svc, *a, **k):
            if not mine(svc):
                return None
            w = mon.world
            return {"svc_state": w.svc_state(), "node_state": w.node_state(), "blocked": w.blocks_backup(), "bak_up": w.backup_host_up(),
                    "health": w.file_health()}

        def post_backup(svc, pre, res, exc, *a, **k):
            if pre is None:
                return
            mon.cov.inc("backup_calls")
            mon.ref.judge_backup(pre, res, mon.world.file_health())
            mon.log.append(("  backup_database ->", res))

        def post_restore(svc, pre, res, exc, *a, **k):
            if pre is None:
                return
            mon.cov.inc("restore_calls")
            if pre["svc_state"] != "RUNNING" or pre["node_state"] != "ON" or pre["blocked"] or not pre["bak_up"]:
                mon.cov.inc("restore_calls_while_unavailable")
            for mech, msg in mon.ref.judge_restore(pre, res, mon.world.file_health()):
                mon.v(mech, msg)
            mon.log.append(("  restore_backup ->", res, mon.world.file_health()))

        probes.wrap(DatabaseService, "backup_database", pre_br, post_backup)
        probes.wrap(DatabaseService, "restore_backup", pre_br, post_restore)


# ------------------------------------------------------------------------------------------------ driver
class Driver:
    def __init__(self, spec, cov, out, ctx):
        self.spec, self.cov, self.out = spec, cov, out
        self.mon = DbMonitor(cov, out, ctx)
        self.mon.install()
        topo, pw = spec["topo"], spec["pw"]
        cfg, self.ips = scenario(topo, pw, spec.get("bot_pw", pw), spec.get("dur", 0), spec.get("fix_d", 1))
        self.game = corpus.build_game(cfg)
        self.sim = self.game.simulation
        net = self.sim.network
        self.nodes = {h: net.get_node_by_hostname(h) for h in ("c1", "c2", "srv", "bak")}
        self.router = net.get_node_by_hostname("r1") if topo == "routed" else None
        self.topo, self.pw = topo, pw
        db = self.nodes["srv"].software_manager.software["database-service"]
        db.max_sessions = spec.get("max_sessions", 3)
        db.restart_duration = spec.get("restart_d", 1)
        self.db = db
        if db.password != pw:
            raise RuntimeError("scenario password not applied")
        world = World(db, self.nodes["srv"], self.nodes["bak"], {self.ips[c]: c for c in ("c1", "c2")}, self.router)
        self.world = world
        self.mon.db, self.mon.world = db, world
        self.mon.ref = self.ref = DbRef(world, pw, db.max_sessions, cov)
        self.mon.armed = True
        self.conns = {"c1": [], "c2": []}
        self.t = 0
        self.nq = 0
        self.cells = set()
        self.flags = set()

    # ---- helpers
    def client(self, c):
        return self.nodes[c].software_manager.software.get("database-client")

    def slot(self, c, slot):
        lst = self.conns[c]
        if not lst:
            return None
        if slot == "last":
            return lst[-1]
        return lst[slot % len(lst)]

    def deliverable(self, c):
        """everything between this client and the service is up: a disconnect it sends now must close the connection"""
        w, cl = self.world, self.client(c)
        return (cl is not None and cl.operating_state.name == "RUNNING" and self.nodes[c].operating_state.name == "ON"
                and w.running() and w.node_on() and not w.blocks_client(c))

    def close_by_intent(self, ids, why):
        for cid in ids:
            if cid in self.ref.open:
                # the server never saw the disconnect although everything was up: from here on the id counts as closed
                self.cov.hit("diag:closed_by_intent_without_server_event", why)
                self.ref.open.discard(cid)
                self.ref.closed.add(cid)

    def pw_value(self, kind):
        pw = self.pw
        if kind == "right":
            return pw
        if kind == "none":
            return None if pw is not None else "pw"
        if kind == "empty":
            return ""
        base = pw if pw else "pw"
        return {"wrong_sub": base[:1], "wrong_super": base + "x", "wrong_case": base.swapcase(), "wrong_other": "letmein"}[kind]

    def req(self, r):
        try:
            resp = self.sim.apply_request(r)
            return resp.status
        except Exception as e:
            self.cov.hit("diag:request_raised", f"{r[3:6]}:{type(e).__name__}")
            return f"raised {type(e).__name__}"

    def granted_in_op(self, typ, cid=None, cls=None):
        for rec in self.mon.exch:
            rp = rec["reply"] or {}
            if rec["type"] != typ or rp.get("status_code") != 200:
                continue
            if typ == "connect_request" and (cid is None or rp.get("connection_id") == cid):
                return True
            if typ == "sql" and (cid is None or rec["connection_id"] == cid) and (cls is None or sql_class(rec["sql"]) == cls):
                return True
        return False

    def client_success(self, c, what, typ, cid=None, cls=None):
        """the client reported success for a connect / query: it must be backed by the server and not cross a blocked path"""
        self.cov.inc("client_successes_checked")
        if self.world.blocks_client(c):
            self.mon.v(f"{what}-succeeds/path-blocked", f"{what} from {c} reported success while the router denies its path (rule {self.world.acl})")
        if not self.granted_in_op(typ, cid, cls):
            self.mon.v(f"client-reports-{what}-success-without-server-grant", f"{what} from {c} reported success but the server sent no 200 for it in this op")

    def env_cell(self, c=None):
        w = self.world
        blocked = w.blocks_client(c) if c else w.acl is not None
        return f"svc={w.svc_state()}|node={w.node_state()}|file={w.file_health()}|blocked={blocked}"

    # ---- ops
    def apply(self, op):
        mon, cov = self.mon, self.cov
        kind = op[0]
        mon.exch = []
        c = op[1] if len(op) > 1 and op[1] in ("c1", "c2") else None
        cell = self.env_cell(c)
        w = self.world
        unavailable = (not w.running()) or (not w.node_on()) or (c is not None and w.blocks_client(c))
        if kind in ("connect", "query", "raw", "native", "nquery", "red", "restore", "backup"):
            self.cells.add(f"{kind}|{cell}")
            cov.hit("op_cells", f"{kind}|{cell}")
            if not w.running():
                cov.inc("ops_while_service_not_running")
            if not w.node_on():
                cov.inc("ops_while_server_node_off")
            if (c is not None and w.blocks_client(c)) or (kind in ("restore", "backup") and w.blocks_backup()):
                cov.inc("ops_while_path_blocked")
        entry = list(op)
        mon.log.append(entry)
        res = None
        try:
            res = getattr(self, "op_" + kind)(*op[1:])
        except Exception as e:  # not judged by C17; visible in the evidence
            cov.hit("diag:op_raised", f"{kind}:{type(e).__name__}")
            res = f"raised {type(e).__name__}: {str(e)[:80]}"
        entry.append("->")
        entry.append(res)
        if unavailable and kind in ("connect", "query", "raw", "native", "nquery"):
            cov.inc("client_ops_while_unavailable")
        self.quiescent(kind)
        return res

    def op_connect(self, c, pwkind):
        cl = self.client(c)
        if cl is None:
            return "no-client"
        val = self.pw_value(pwkind)
        if val:
            self.req(["network", "node", c, "application", "database-client", "configure", {"server_ip_address": self.ips["srv"], "server_password": val}])
        cl.server_password = val  # None / '' cannot be expressed through configure()
        cl.server_ip_address = self.world.db.software_manager.node.network_interface[1].ip_address
        conn = cl.get_new_connection()
        if conn is not None:
            self.conns[c].append(conn)
            self.flags.add("grant")
            self.client_success(c, "connect", "connect_request", cid=conn.connection_id)
            return "granted"
        self.flags.add("refusal")
        return "refused"

    def op_query(self, c, slot, sql):
        conn = self.slot(c, slot)
        if conn is None:
            return "no-conn"
        ok = conn.query(sql)
        if ok:
            self.flags.add("q_ok")
            self.client_success(c, "query", "sql", cid=conn.connection_id, cls=sql_class(sql))
        else:
            self.flags.add("refusal")
        return bool(ok)

    def pick_id(self, c, idkind):
        ref = self.ref
        mine = {k.connection_id for k in self.conns[c]}
        if idkind == "closed" and ref.closed:
            return sorted(ref.closed)[self.nq % len(ref.closed)]
        if idkind == "none":
            return None
        if idkind == "other_open":
            o = sorted(ref.open - mine)
            if o:
                return o[self.nq % len(o)]
        if idkind == "own_open":
            o = sorted(ref.open & mine)
            if o:
                return o[self.nq % len(o)]
        return f"forged-{self.spec.get('name', '')}-{self.nq}"

    def op_raw(self, c, sql, idkind):
        """what DatabaseClient._query does, with a connection id of our choosing: tests the server-side gate"""
        cl = self.client(c)
        if cl is None:
            return "no-client"
        self.nq += 1
        cid = self.pick_id(c, idkind)
        qid = f"q-{self.nq}"
        k = self.ref.id_kind(cid)
        if k != "open":
            self.cov.inc("forged_id_attempts")
            self.cov.hit("forged_id_attempts_by", f"{sql_class(sql)}|{k}")
        cl.software_manager.send_payload_to_session_manager(
            payload={"type": "sql", "sql": sql, "uuid": qid, "connection_id": cid}, dest_ip_address=cl.server_ip_address or self.ips["srv"],
            dest_port=cl.port)
        ok = cl._query_success_tracker.get(qid) is True
        if ok:
            self.client_success(c, "query", "sql", cid=cid, cls=sql_class(sql))
        else:
            self.flags.add("refusal")
        return f"{k}:{ok}"

    def op_disconnect(self, c, slot):
        cl = self.client(c)
        if slot == "extra":  # keep only the first connection of this client
            targets = [k for k in self.conns[c][1:] if k.is_active]
        else:
            k = self.slot(c, slot)
            if k is None:
                return "no-conn"
            targets = [k]
        ok = self.deliverable(c)
        ids = [k.connection_id for k in targets if ok and k.is_active and cl is not None and k.connection_id in cl.client_connections]
        was = [k.is_active for k in targets]
        for k in targets:
            k.disconnect()
        self.close_by_intent(ids, "disconnect")
        return f"active {was}->{[k.is_active for k in targets]}"

    def op_native(self, c):
        cl = self.client(c)
        if cl is None:
            return "no-client"
        st = self.req(form("node-application-execute", node_name=c, application_name="database-client"))
        if st == "success":
            nc = cl.native_connection
            self.client_success(c, "query", "sql", cid=nc.connection_id if nc else None, cls="PG_STAT")
        return st

    def op_nquery(self, c, sql):
        cl = self.client(c)
        if cl is None:
            return "no-client"
        ok = cl.query(sql)
        if ok:
            nc = cl.native_connection
            self.client_success(c, "query", "sql", cid=nc.connection_id if nc else None, cls=sql_class(sql))
        return bool(ok)

    def op_uninstall(self, c):
        cl = self.client(c)
        ids = list(cl.client_connections.keys()) if cl is not None and self.deliverable(c) else []
        st = self.req(form("node-application-remove", node_name=c, application_name="database-client"))
        if st == "success":
            self.close_by_intent(ids, "uninstall")
        return st

    def op_install(self, c):
        st = self.req(form("node-application-install", node_name=c, application_name="database-client"))
        if self.client(c) is not None:
            self.req(["network", "node", c, "application", "database-client", "configure",
                      {"server_ip_address": self.ips["srv"], "server_password": self.pw}])
        return st

    def op_svc(self, verb):
        self.flags.add("env")
        return self.req(["network", "node", "srv", "service", "database-service", verb])

    def op_backup(self):
        return self.db.backup_database()

    def op_restore(self):
        return self.db.restore_backup()

    def op_power(self, host, verb):
        self.flags.add("env")
        return self.req(form(f"node-{verb}", node_name=host))

    def op_acl(self, kind):
        if self.router is None:
            return "n/a"
        self.flags.add("env")
        if kind == "none":
            st = self.req(["network", "node", "r1", "acl", "remove_rule", 0])
            if st == "success":
                self.world.acl = None
            return st
        rule = {"all": ["DENY", "ALL", "ALL", "NONE", "ALL", "ALL", "NONE", "ALL"],
                "pg": ["DENY", "tcp", "ALL", "NONE", "ALL", "ALL", "NONE", "POSTGRES_SERVER"],
                "ftp": ["DENY", "tcp", "ALL", "NONE", "ALL", "ALL", "NONE", "FTP"],
                "src:c1": ["DENY", "ALL", self.ips["c1"], "NONE", "ALL", "ALL", "NONE", "ALL"],
                "src:c2": ["DENY", "ALL", self.ips["c2"], "NONE", "ALL", "ALL", "NONE", "ALL"]}[kind]
        st = self.req(["network", "node", "r1", "acl", "add_rule"] + rule + [0])
        if st == "success":
            self.world.acl = kind
        return st

    def op_tick(self):
        self.t += 1
        self.sim.apply_timestep(self.t)
        self.sim.pre_timestep(self.t)
        return self.t

    def op_red(self, c, bot):
        name = {"dmb": "data-manipulation-bot", "ransom": "ransomware-script"}[bot]
        if self.nodes[c].software_manager.software.get(name) is None:
            return "no-bot"
        self.cov.inc("red_application_runs")
        st = self.req(form("node-application-execute", node_name=c, application_name=name))
        cls = "DELETE" if bot == "dmb" else "ENCRYPT"
        if self.granted_in_op("sql", cls=cls):
            self.cov.inc("red_application_payloads_accepted")
            if self.world.blocks_client(c):
                self.mon.v("query-succeeds/path-blocked", f"{name} on {c} delivered {cls} while the router denies its path")
        elif bot == "ransom" and st == "success":
            self.mon.v("client-reports-query-success-without-server-grant", f"{name} on {c} reported success but the server answered no 200 to ENCRYPT")
        return st

    def op_repair(self):
        return self.req(form("node-file-repair", node_name="srv", folder_name="database", file_name="database.db"))

    # ---- comparison at quiescent points
    def quiescent(self, after):
        cov, ref, w = self.cov, self.ref, self.world
        cov.inc("quiescent_checks")
        ref.resync_health(w.file_health(), after)
        real = w.connections()
        if len(real) > self.db.max_sessions:
            self.mon.v("connections-exceed-session-limit", f"{len(real)} connections registered, max_sessions={self.db.max_sessions} (after {after})")
        cov.mx("open_connections", len(real))
        for c in ("c1", "c2"):
            cl = self.client(c)
            if cl is None:
                continue
            held = set(cl.client_connections.keys())
            cov.inc("held_ids_compared", len(held))
            for cid in held:
                if cid not in ref.issued:
                    self.mon.v("client-holds-connection-the-server-never-issued", f"{c} holds connection id {cid!r} that the server never issued (after {after})")
                elif cid not in real:
                    cov.inc("diag:client_holds_id_not_registered_at_server")
        lost = ref.open - real
        if lost:
            cov.inc("diag:open_ids_missing_from_server_table", len(lost))
        stale = ref.closed & real
        if stale:
            cov.inc("diag:closed_ids_still_in_server_table", len(stale))


def run_seq(spec, ops, cov, out, ctx):
    probes.uninstall_all()
    try:
        d = Driver(spec, cov, out, ctx)
        for op in ops:
            d.apply(tuple(op))
            if d.mon.violated:  # attribute the violation to the op that introduced it
                break
        return d
    finally:
        probes.uninstall_all()


# ------------------------------------------------------------------------------------------------ workloads
def scripted(name, topo):
    """clause scenarios; slot 0 of each client is its long-lived connection, extras are trimmed with ('disconnect', c, 'extra')"""
    T = ("tick",)
    C1R, C2R = ("connect", "c1", "right"), ("connect", "c2", "right")
    Q = lambda c, sql, slot=0: ("query", c, slot, sql)  # noqa: E731
    TRIM = [("disconnect", "c1", "extra"), ("disconnect", "c2", "extra")]
    probe_all = [C1R, ("connect", "c2", "wrong_other"), Q("c1", "SELECT"), Q("c1", "INSERT"), Q("c2", "DELETE"),
                 ("raw", "c1", "SELECT", "own_open"), ("raw", "c2", "INSERT", "never"), ("raw", "c1", "DELETE", "never"),
                 ("raw", "c2", "SELECT", "closed"), ("native", "c2"), ("nquery", "c2", "SELECT"), ("restore",), ("backup",),
                 ("red", "c2", "ransom"), ("red", "c1", "dmb")]
    check_up = [("restore",), Q("c1", "SELECT"), Q("c2", "SELECT"), C2R, Q("c2", "SELECT", "last")] + TRIM
    if name == "capacity":  # run with max_sessions 3 and 2
        return [T, C1R, C1R, C2R, C2R, C1R, ("disconnect", "c1", "last"), C2R, C1R, Q("c1", "SELECT"), ("restore",), T, Q("c1", "SELECT"), C2R, C1R, C1R,
                ("disconnect", "c2", 0), ("disconnect", "c1", 0), ("restore",), C1R, C2R, C2R, Q("c1", "SELECT", "last"), ("native", "c2"),
                ("uninstall", "c1"), C2R, C2R, ("restore",), C2R, C2R, C2R, Q("c2", "SELECT", "last")]
    if name == "password":
        seq = []
        for k in PW_KINDS:
            seq += [("connect", "c1", k), ("connect", "c2", k)]
        seq += TRIM
        seq += [("connect", "c1", "wrong_sub"), ("svc", "restart"), ("connect", "c1", "wrong_sub"), C1R, T,
                ("connect", "c1", "wrong_super"), T, T, ("connect", "c1", "wrong_case"), C1R, Q("c1", "SELECT", "last"),
                ("power", "srv", "shutdown"), T, T, ("connect", "c2", "wrong_sub"), C2R, ("power", "srv", "startup"), T, T,
                ("connect", "c2", "none"), ("connect", "c2", "wrong_sub"), ("connect", "c2", "empty"), C2R, Q("c2", "SELECT", "last")]
        return seq
    if name == "damage":
        return [C1R, T, Q("c1", "SELECT"), Q("c1", "DELETE"), Q("c1", "SELECT"), Q("c1", "INSERT"), Q("c1", PG), ("repair",), Q("c1", "SELECT"),
                ("restore",), Q("c1", "SELECT"), Q("c1", "ENCRYPT"), Q("c1", "SELECT"), ("repair",), Q("c1", "SELECT"), Q("c1", "ENCRYPT"), ("restore",),
                Q("c1", "SELECT"), Q("c1", "DELETE"), ("svc", "fix"), Q("c1", "SELECT"), T, Q("c1", "SELECT"), T, T, Q("c1", "SELECT"),
                Q("c1", "DROP TABLE users"), Q("c1", "DELETE"), Q("c1", "ENCRYPT"), Q("c1", "SELECT"), ("restore",), Q("c1", "SELECT"),
                Q("c1", "ENCRYPT"), Q("c1", "DELETE"), Q("c1", "SELECT"), ("restore",), Q("c1", "SELECT"), ("nquery", "c1", "DELETE"), ("nquery", "c1", "SELECT"),
                ("native", "c1"), ("nquery", "c1", "DELETE"), ("nquery", "c1", "SELECT"), ("restore",), ("nquery", "c1", "SELECT")]
    if name == "late-backup":  # first backup taken while the data is damaged: restore is not judged, second backup is refused (diagnostics)
        return [C1R, Q("c1", "DELETE"), T, ("restore",), Q("c1", "SELECT"), ("backup",), Q("c1", "ENCRYPT"), ("backup",), ("restore",), Q("c1", "SELECT")]
    if name == "down":
        seq = [C1R, C2R, C2R, T, ("disconnect", "c2", "last")]
        for down, up, nt in ((("svc", "stop"), ("svc", "start"), 0), (("svc", "pause"), ("svc", "resume"), 0), (("svc", "restart"), T, 2),
                             (("power", "srv", "shutdown"), ("power", "srv", "startup"), 2), (("svc", "fix"), T, 3)):
            seq += [down] + probe_all + [T] + probe_all[:9] + [up] + [T] * nt + check_up
        return seq
    if name == "hosts":
        return [C1R, C2R, T, ("power", "bak", "shutdown"), T, T, ("restore",), ("backup",), Q("c1", "DELETE"), ("restore",), Q("c1", "SELECT"),
                ("svc", "fix"), T, T, T, Q("c1", "SELECT"), ("power", "bak", "startup"), T, T, ("restore",), Q("c1", "SELECT"),
                ("power", "c1", "shutdown"), T, T, Q("c1", "SELECT"), C1R, ("raw", "c2", "SELECT", "other_open"), ("raw", "c1", "SELECT", "own_open"),
                ("power", "c1", "startup"), T, T, Q("c1", "SELECT"), ("disconnect", "c1", 0), ("raw", "c2", "SELECT", "closed"),
                ("raw", "c1", "INSERT", "closed"), ("raw", "c1", "DELETE", "closed"), Q("c1", "SELECT")]
    if name == "blocked":
        seq = [C1R, C2R, C2R, T, ("disconnect", "c2", "last")]
        for k in ("all", "pg", "ftp", "src:c1", "src:c2"):
            # a connection opened before the block and dropped by its client during the block stays open at the server
            seq += [C2R, ("acl", k)] + probe_all + [("disconnect", "c2", "last"), ("acl", "none")] + check_up
            seq += [("raw", "c1", "SELECT", "other_open"), ("raw", "c1", "SELECT", "closed")]
        return seq
    if name == "uninstall":
        return [C2R, C2R, C1R, T, ("uninstall", "c2"), ("raw", "c1", "SELECT", "closed"), ("raw", "c1", "INSERT", "closed"), ("raw", "c1", "DELETE", "closed"),
                ("raw", "c1", "ENCRYPT", "closed"), ("raw", "c1", PG, "closed"), Q("c2", "SELECT"), C2R, ("install", "c2"), C2R, T, T, T, C2R,
                Q("c2", "SELECT", 0), Q("c2", "SELECT", "last"), ("svc", "stop"), ("uninstall", "c2"), ("svc", "start"),
                ("raw", "c1", "SELECT", "other_open"), ("raw", "c1", "SELECT", "closed"), ("install", "c2"), T, T, T, C2R, C2R, Q("c2", "SELECT", "last")]
    if name == "forged":
        seq = [C1R, C2R, C2R, T, ("disconnect", "c2", "last")]
        for s in SQLS:
            for k in ("never", "closed", "none"):
                seq += [("raw", "c1", s, k), ("raw", "c2", s, k)]
        seq += [Q("c1", "SELECT"), ("raw", "c1", "DELETE", "own_open"), ("raw", "c1", "SELECT", "never"), ("restore",),
                ("raw", "c2", "ENCRYPT", "other_open"), ("raw", "c2", "INSERT", "closed"), ("restore",), Q("c1", "SELECT")]
        return seq
    if name == "red":  # run with the bots holding the right and a wrong password
        return [C2R, T, ("red", "c1", "dmb"), Q("c2", "SELECT"), ("restore",), Q("c2", "SELECT"), ("red", "c2", "ransom"), Q("c2", "SELECT"), ("restore",),
                ("red", "c1", "dmb"), ("red", "c1", "dmb"), ("svc", "fix"), T, T, T, Q("c2", "SELECT"), ("svc", "stop"), ("red", "c1", "dmb"),
                ("red", "c2", "ransom"), ("svc", "start"), ("power", "srv", "shutdown"), T, T, ("red", "c1", "dmb"), ("red", "c2", "ransom"),
                ("power", "srv", "startup"), T, T, ("red", "c2", "ransom"), ("restore",), ("uninstall", "c1"), ("red", "c1", "dmb"), Q("c2", "SELECT"),
                ("install", "c1"), T, T, T, ("red", "c1", "dmb"), Q("c2", "SELECT"), ("restore",), Q("c2", "SELECT")]
    raise ValueError(name)


SCRIPTS = ["capacity", "password", "damage", "late-backup", "down", "hosts", "blocked", "uninstall", "forged", "red"]

# reduced alphabet for the bounded-exhaustive words (prefix: one open connection on c1, backup taken while GOOD)
REDUCED = [("connect", "c1", "right"), ("connect", "c2", "wrong_sub"), ("query", "c1", 0, "DELETE"), ("query", "c1", 0, "ENCRYPT"),
           ("query", "c1", 0, "SELECT"), ("disconnect", "c1", 0), ("svc", "stop"), ("svc", "start"), ("svc", "restart"), ("svc", "fix"),
           ("power", "srv", "shutdown"), ("power", "srv", "startup"), ("restore",), ("tick",), ("uninstall", "c1"), ("acl", "all"), ("acl", "none")]
EXH_PREFIX = [("connect", "c1", "right"), ("tick",)]
EXH_SUFFIX = [("raw", "c2", "SELECT", "closed"), ("raw", "c2", "INSERT", "never"), ("raw", "c2", "DELETE", "none"), ("query", "c1", 0, "SELECT"),
              ("connect", "c2", "right"), ("connect", "c2", "wrong_super"), ("restore",), ("query", "c1", 0, "SELECT"), ("query", "c2", 0, "SELECT")]


def random_ops(rnd, n, topo):
    W = []

    def add(w, *ops):
        for o in ops:
            W.append((w, o))

    for c in ("c1", "c2"):
        add(3.0, ("connect", c, "right"))
        for k in PW_KINDS[1:]:
            add(0.4, ("connect", c, k))
        for s, w in (("SELECT", 2.0), ("INSERT", 1.0), ("DELETE", 1.0), ("ENCRYPT", 1.0), ("DROP TABLE users", 0.5), (PG, 0.5)):
            add(w, ("query", c, "?", s))
            add(w * 0.5, ("raw", c, s, "?"))
        add(2.0, ("disconnect", c, "?"))
        add(0.4, ("uninstall", c))
        add(0.6, ("install", c))
        add(0.5, ("native", c))
        add(0.5, ("nquery", c, "SELECT"), ("nquery", c, "DELETE"))
        add(0.5, ("red", c, "dmb"), ("red", c, "ransom"))
    add(0.8, ("svc", "stop"), ("svc", "pause"), ("svc", "restart"), ("svc", "fix"))
    add(1.6, ("svc", "start"), ("svc", "resume"))
    add(1.0, ("backup",))
    add(3.5, ("restore",))
    add(0.8, ("power", "srv", "shutdown"))
    add(1.6, ("power", "srv", "startup"))
    add(0.3, ("power", "c1", "shutdown"), ("power", "bak", "shutdown"), ("power", "c2", "shutdown"))
    add(0.8, ("power", "c1", "startup"), ("power", "bak", "startup"), ("power", "c2", "startup"))
    add(0.6, ("repair",))
    add(6.0, ("tick",))
    if topo == "routed":
        add(0.5, ("acl", "all"), ("acl", "pg"), ("acl", "ftp"), ("acl", "src:c1"), ("acl", "src:c2"))
        add(2.5, ("acl", "none"))
    ws = [w for w, _ in W]
    out = []
    for _ in range(n):
        o = rnd.choices(W, ws)[0][1]
        o = tuple(rnd.randrange(4) if x == "?" and i == 2 and o[0] in ("query", "disconnect") else
                  (rnd.choice(ID_KINDS) if x == "?" else x) for i, x in enumerate(o))
        out.append(o)
    return out


class Check:
    pid = "C17"
    level = "exploration"
    rule = ("case = (topology in {4 hosts on one switch, clients/server/backup host on three subnets of one router with an ACL}, "
            "server password in {'pw', 'S3cret!', none}, node power durations in {0,1}, max_sessions in {2,3,5,8}, restart/fix durations in {1,2}) x "
            "an op sequence over {connect c1/c2 with right/substring/superstring/case/other/empty/no password; SELECT/INSERT/DELETE/"
            "ENCRYPT/unknown/pg_stat on a held connection; raw sql payloads with never-issued/closed/None/other's/own connection ids; "
            "disconnect; client uninstall/install; native execute/query; service stop/start/pause/resume/restart/fix; backup; restore; "
            "file repair; shutdown/startup of server, client, backup host; router DENY rule (all / postgres / ftp / one client) and its "
            "removal; DataManipulationBot and RansomwareScript runs (right / wrong password); tick}: 10 scripted clause scenarios, every "
            "word of length 3 (thorough: 4 on the switched topology) over a 17-op reduced alphabet (15 without the ACL ops) between a fixed "
            "prefix (open connection, backup taken while GOOD) and a fixed probing suffix, and random sequences of length 45. Non-trivial "
            "sequence: >=1 grant, >=1 refusal, >=1 successful query and >=1 environment change; distinct by the set of "
            "(op kind, service state, node state, file health, blocked) cells visited.")
    assumptions = [
        "'at capacity' = max_sessions issued-and-not-closed connections (DESIGN C17); max_sessions/restart_duration are set on the service object",
        "a connection is 'closed' when a disconnect from its owner reached the running service on a powered-on node; connections are NOT assumed closed by stop/restart/power-off (the code keeps them, the statement is silent)",
        "only success is judged (granted => password, RUNNING, node ON, below capacity, path open; 200 => issued-and-open id, RUNNING, ON); refusal codes, liveness (sticky OVERWHELMED, refused second backup), INSERT/SELECT on CORRUPT data, fix and repair semantics are diagnostics",
        "'' versus no password is not judged",
        "path blocked = a DENY rule at position 0 of the router ACL matching the traffic; link bandwidth is set to 1e6 so that capacity (C18) never interferes",
        "service/node state and file health are read from the simulator objects at the moment the payload reaches the server",
    ]
    min_monitor = {"exchanges_judged": 10000, "connect_granted": 2000, "connect_refused": 2000, "sql_ok": 2000, "sql_refused": 2000,
                   "forged_id_attempts": 1500, "capacity_boundary_hits": 300, "restore_calls": 1500, "restores_ok": 300,
                   "restore_calls_while_unavailable": 200, "client_ops_while_unavailable": 2000, "ops_while_path_blocked": 300,
                   "delete_ok": 200, "encrypt_ok": 200, "red_application_payloads_accepted": 30, "quiescent_checks": 30000,
                   "client_successes_checked": 3000, "nontrivial_sequences": 300}
    case_timeout = {"quick": 900, "thorough": 3600}

    def cases(self, tier, seed):
        specs = []
        quick = tier == "quick"
        for topo in ("lan", "routed"):
            for pw in ("pw", None):
                for dur in (0, 1):
                    specs.append({"name": f"script-{topo}-{pw}-{dur}", "kind": "script", "topo": topo, "pw": pw, "dur": dur})
        # words of length 3 (quick; thorough: routed) or 4 (thorough: lan) over the reduced alphabet, chunked by their first op(s)
        for topo in ("lan", "routed"):
            deep = (not quick) and topo == "lan"
            for first in range(len(REDUCED)):
                if topo == "lan" and REDUCED[first][0] == "acl":
                    continue
                if not deep:
                    specs.append({"name": f"exh3-{topo}-{first}", "kind": "exh", "topo": topo, "pw": "pw", "first": first, "depth": 3})
                    continue
                for second in range(len(REDUCED)):
                    if REDUCED[second][0] == "acl":
                        continue
                    specs.append({"name": f"exh4-{topo}-{first}-{second}", "kind": "exh", "topo": topo, "pw": "pw", "first": first,
                                  "second": second, "depth": 4})
        nrand = 48 if quick else 288
        for s in range(nrand):
            specs.append({"name": f"rand-{seed * 1000 + s}", "kind": "rand", "seed": seed * 1000 + s, "n": 32 if quick else 60, "len": 45})
        return specs

    def run_case(self, spec):
        cov, out = Cov(), []
        sigs = set()
        nontriv = 0

        def one(sspec, ops, ctx):
            nonlocal nontriv
            d = run_seq(sspec, ops, cov, out, ctx)
            cov.inc("sequences")
            cov.inc("ops", len(d.mon.log))
            if {"grant", "refusal", "q_ok", "env"} <= d.flags:
                nontriv += 1
                sigs.add(digest(sorted(d.cells)))
            return d

        if spec["kind"] == "script":
            for name in SCRIPTS:
                if name == "blocked" and spec["topo"] != "routed":
                    continue
                for ms, bot_pw in ((3 if name == "capacity" else 8, spec["pw"]), (2 if name == "capacity" else 8, "stolen-wrong")):
                    if bot_pw != spec["pw"] and name not in ("red", "capacity"):
                        continue
                    ss = {"name": spec["name"], "topo": spec["topo"], "pw": spec["pw"], "bot_pw": bot_pw, "dur": spec["dur"], "max_sessions": ms,
                          "restart_d": 1, "fix_d": 2}
                    one(ss, scripted(name, spec["topo"]), {"script": name, **ss})
                    if len(out) >= 6:
                        break
        elif spec["kind"] == "exh":
            alpha = [o for o in REDUCED if spec["topo"] == "routed" or o[0] != "acl"]
            fixed = [REDUCED[spec["first"]]] + ([REDUCED[spec["second"]]] if "second" in spec else [])
            ss = {"name": spec["name"], "topo": spec["topo"], "pw": spec["pw"], "dur": 0, "max_sessions": 2, "restart_d": 1, "fix_d": 1}
            for tail in itertools.product(alpha, repeat=spec["depth"] - len(fixed)):
                word = fixed + list(tail)
                one(ss, EXH_PREFIX + word + EXH_SUFFIX, {"exh_word": [list(map(str, o)) for o in word], **ss})
                if len(out) >= 6:
                    break
        else:
            rnd = random.Random(spec["seed"])
            for k in range(spec["n"]):
                topo = rnd.choice(["lan", "routed"])
                pw = rnd.choice(["pw", "pw", "S3cret!", None])
                ss = {"name": f"{spec['name']}-{k}", "topo": topo, "pw": pw, "bot_pw": rnd.choice([pw, pw, "stolen-wrong"]), "dur": rnd.choice([0, 0, 1]),
                      "max_sessions": rnd.choice([2, 3, 3, 5]), "restart_d": rnd.choice([1, 2]), "fix_d": rnd.choice([0, 0, 1, 2, 3])}
                ops = random_ops(rnd, spec["len"], topo)
                one(ss, ops, {"rand_seed": spec["seed"], "k": k, **ss})
                if len(out) >= 6:
                    break
        cov.inc("nontrivial_sequences", nontriv)
        cov.d["distinct_cell_sets"] = sorted(sigs)
        return {"violations": out, "cov": cov.d, "nontrivial": nontriv > 0, "digest": digest(spec),
                "sample": {"case": spec, "sequences": cov.d.get("sequences"), "nontrivial_sequences": nontriv, "ops": cov.d.get("ops")}}

    def post(self, specs, results, tier, seed):
        sigs = set()
        for r in results:
            if r and "cov" in r:
                sigs |= set(r["cov"].get("distinct_cell_sets", []))
        return {"digests": sorted(sigs)}


CHECK = Check()
