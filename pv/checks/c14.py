"""C14 - visible health changes only by scanning; fixes and scans take their set time.

Monitors (all attached from outside, see pv/models/health_ref.py for the oracle):
  * field-write taps on Software.health_state_visible / health_state_actual and FileSystemItemABC.visible_health_status /
    health_status, judged against a path-keyed shadow with the dynamic region stack (Software.scan, File.scan,
    Folder._scan_timestep, Folder.scan, Node.apply_timestep, fix / start / install / connection / SQL / restore regions);
  * quiescent comparison real == shadow after every request and tick (catches changes that bypass the field writes);
  * completion events of the timed mechanisms (fix, folder scan, folder restore, node scan) against the candidate ticks
    {request tick + k}; k is pinned for fix (documented) and self-calibrated on an undisturbed straight-line run of the
    same case for the others (two-reading rule: k in {d, d+1}; duration 0 => no later than the next tick);
  * coverage of a completing folder scan / node scan (every live file / every installed software is scanned).
Workload: bounded-exhaustive words + random deep words of requests (raw and formed by the real action classes), ticks,
node power events and traffic from a peer host, on a 3-node network; durations crossed over {0,1,2,3}.
"""
from __future__ import annotations

import copy
import itertools
import random

from pv import corpus, probes
from pv.harness import Cov, digest, viol
from pv.models.health_ref import HealthShadow

HOST, PEER = "N", "peer"
SW = {"db": ("service", "database-service"), "web": ("service", "web-server"), "cli": ("application", "web-browser"),
      "bot": ("application", "dos-bot")}
FILES = {"a": ("d", "a.txt"), "b": ("d", "b.txt"), "dbf": ("database", "database.db")}
FOLDERS = {"d": "d", "dbd": "database"}

CORE = [
    ("sw_compromise", "db"), ("sw_scan", "db"), ("sw_fix", "db"), ("svc_stop", "db"), ("svc_start", "db"), ("svc_pause", "db"),
    ("sw_compromise", "cli"), ("sw_scan", "cli"), ("sw_fix", "cli"),
    ("file_corrupt", "a"), ("file_scan", "a"), ("file_delete", "a"), ("fs_restore_file", "a"),
    ("folder_corrupt", "d"), ("folder_scan", "d"), ("folder_restore", "d"), ("folder_repair", "d"),
    ("os_scan", None), ("shutdown", None), ("startup", None), ("tick", None),
    ("sql_delete", None), ("sql_encrypt", None), ("file_scan", "dbf"),
]
EXTRA = [
    ("svc_resume", "db"), ("file_repair", "a"), ("peer_connect", None),
    ("sw_compromise", "web"), ("sw_scan", "web"), ("sw_fix", "web"), ("svc_stop", "web"), ("svc_start", "web"),
    ("file_restore", "a"), ("file_corrupt", "dbf"), ("file_corrupt", "b"), ("file_scan", "b"), ("file_repair", "dbf"),
    ("folder_scan", "dbd"), ("folder_restore", "dbd"), ("folder_delete", "d"), ("fs_restore_folder", "d"),
    ("peer_disconnect", None), ("app_install", "bot"), ("app_remove", "bot"), ("sw_scan", "bot"), ("sw_compromise", "bot"),
    ("sw_fix", "bot"), ("svc_pause", "web"), ("svc_resume", "web"), ("file_delete", "dbf"), ("fs_restore_file", "dbf"),
    ("svc_restart", "db"), ("svc_restart", "web"), ("svc_disable", "web"), ("svc_enable", "web"),
]
FULL = CORE + EXTRA
TIMING = [("folder_scan", "d"), ("folder_restore", "d"), ("os_scan", None), ("sw_fix", "db"), ("sw_compromise", "db"),
          ("tick", None), ("file_delete", "a"), ("shutdown", None)]
T = ("tick", None)
# hand-written words for the interleavings the design names; each is run with all four durations equal to 0,1,2,3
SCRIPTED = {
    "db-restore-twice-after-delete": [("sql_encrypt", None), ("file_scan", "dbf"), ("sw_fix", "db"), T, T, T, ("file_scan", "dbf"),
                                      ("file_delete", "dbf"), ("sw_fix", "db"), T, T, T, ("file_scan", "dbf")],
    "compromise-during-fixing": [("sw_compromise", "db"), ("sw_fix", "db"), T, ("sw_compromise", "db"), T, T, ("sw_fix", "db"), T, T, T,
                                 ("sw_scan", "db")],
    "overlapping-folder-scans": [("folder_scan", "d"), T, ("file_corrupt", "a"), ("folder_scan", "d"), T, T, T, T],
    "overlapping-node-scans": [("os_scan", None), T, ("sw_compromise", "cli"), ("os_scan", None), T, T, T, T],
    "overlapping-folder-restores": [("file_delete", "a"), ("folder_restore", "d"), T, ("file_corrupt", "b"), ("folder_restore", "d"), T, T, T, T],
    "power-loss-mid-operation": [("sw_compromise", "db"), ("sw_fix", "db"), ("folder_scan", "d"), ("folder_restore", "d"), ("os_scan", None), T,
                                 ("shutdown", None), T, T, ("startup", None), T, T, T, T, T, ("sw_scan", "db")],
    "dos-then-fix": [("peer_connect", None), ("peer_connect", None), ("sw_scan", "db"), ("peer_disconnect", None), ("sw_fix", "db"), T, T, T,
                     ("peer_connect", None), ("sw_scan", "db")],
    "db-file-deleted-folder-restore": [("sql_delete", None), ("file_scan", "dbf"), ("file_delete", "dbf"), ("folder_restore", "dbd"), T, T, T, T,
                                       ("file_scan", "dbf"), ("folder_scan", "dbd"), T, T, T, T],
    "pause-during-fixing": [("sw_compromise", "db"), ("sw_fix", "db"), ("svc_pause", "db"), T, T, ("svc_resume", "db"), T, ("sw_scan", "db")],
    "restart-during-fixing": [("sw_compromise", "db"), ("sw_fix", "db"), ("svc_restart", "db"), T, T, T, T, ("sw_scan", "db"), T, T, T, T, T, ("sw_scan", "db")],
    "restart-then-fix": [("sw_compromise", "web"), ("svc_restart", "web"), T, ("sw_fix", "web"), T, T, T, T, ("sw_scan", "web"), T, T, T, ("sw_scan", "web")],
    "disable-during-fixing": [("sw_compromise", "web"), ("sw_fix", "web"), ("svc_disable", "web"), T, T, T, T, ("svc_enable", "web"), ("svc_start", "web"), T, ("sw_scan", "web")],
    "stop-start-compromised": [("sw_compromise", "db"), ("svc_stop", "db"), ("svc_start", "db"), ("sw_scan", "db"), ("shutdown", None), T, T, T,
                               ("startup", None), T, T, T, ("sw_scan", "db"), ("os_scan", None), T, T, T, T],
    "install-compromise-fix-remove": [("app_install", "bot"), ("sw_compromise", "bot"), T, T, T, ("sw_scan", "bot"), ("sw_fix", "bot"), T, T, T,
                                      ("sw_scan", "bot"), ("app_remove", "bot")],
    "folder-delete-restore-with-pending-scan": [("folder_scan", "d"), T, ("folder_delete", "d"), T, ("fs_restore_folder", "d"), T, T, T, T,
                                                ("folder_scan", "d"), T, T, T, T],
}
TIMED_MECHS = ("fix", "folder-scan", "folder-restore", "node-scan")

_am = None
MON = None  # the monitor the class-level taps report to
_TAPS = False


def form(action, **opts):
    global _am
    from primaite.game.agent.actions import ActionManager

    if _am is None:
        _am = ActionManager()
    return _am.form_request(action, opts)


def scenario(d_on, d_off, backup=True):
    n = corpus.Net()
    z = dict(start_up_duration=0, shut_down_duration=0)
    n.switch("sw1", 4, **z)
    n.host(PEER, "192.168.1.10", **z, services=[{"type": "ftp-server"}],
           applications=[{"type": "database-client", "options": {"db_server_ip": "192.168.1.20"}}])
    dbopt = {"backup_server_ip": "192.168.1.10"} if backup else {}
    n.host(HOST, "192.168.1.20", kind="server", start_up_duration=d_on, shut_down_duration=d_off,
           services=[{"type": "database-service", "options": dbopt}, {"type": "web-server"}])
    n.to_switch("sw1", PEER)
    n.to_switch("sw1", HOST)
    return n.scenario()


# ------------------------------------------------------------------------------------------------ taps
def install_taps():
    """class-level taps, installed once per process; they report to the module-level MON (None / not armed => silent)"""
    global _TAPS
    if _TAPS:
        return
    from primaite.simulator.file_system.file import File
    from primaite.simulator.file_system.file_system import FileSystem
    from primaite.simulator.file_system.file_system_item_abc import FileSystemItemABC
    from primaite.simulator.file_system.folder import Folder
    from primaite.simulator.network.hardware.base import Node
    from primaite.simulator.system.applications.application import Application
    from primaite.simulator.system.services.database.database_service import DatabaseService
    from primaite.simulator.system.services.ftp.ftp_service import FTPServiceABC
    from primaite.simulator.system.services.service import Service
    from primaite.simulator.system.services.web_server.web_server import WebServer
    from primaite.simulator.system.software import IOSoftware, Software

    def mon():
        m = MON
        return m if m is not None and m.armed else None

    # ---- field writes
    def on_sw(obj, field, old, new):
        m = mon()
        if m is None:
            return
        key = m.sw_key(obj)
        if key is None:
            m.cov.inc("writes_on_unregistered_software")
            return
        o, n = getattr(old, "name", str(old)), getattr(new, "name", str(new))
        if field == "health_state_visible":
            m.sh.visible_write(key, o, n, obj.health_state_actual.name)
        else:
            m.sh.actual_write(key, o, n)

    def on_fs(obj, field, old, new):
        m = mon()
        if m is None:
            return
        key = m.fs_key(obj)
        if key is None:
            m.cov.inc("writes_on_shadowed_or_foreign_items")
            return
        o, n = getattr(old, "name", str(old)), getattr(new, "name", str(new))
        if field == "visible_health_status":
            m.sh.visible_write(key, o, n, obj.health_status.name)
        else:
            m.sh.actual_write(key, o, n)

    probes.tap_setattr(Software, ["health_state_visible", "health_state_actual"], on_sw)
    probes.tap_setattr(FileSystemItemABC, ["visible_health_status", "health_status"], on_fs)

    # ---- generic region wrapper
    def region(cls, meth, name, keyf, info=None, pre_extra=None, post_extra=None):
        def pre(self, *a, **k):
            m = mon()
            if m is None:
                return None
            key = keyf(m, self)
            if key is None:
                return None
            r = m.sh.enter(name, key, copy.deepcopy(info) if info else None)
            if pre_extra:
                pre_extra(m, r, self, a, k)
            return (m, r)

        def post(self, tok, res, exc, *a, **k):
            if tok is None:
                return
            m, r = tok
            try:
                if post_extra and exc is None and MON is m:
                    post_extra(m, r, self, res, a, k)
            finally:
                m.sh.exit(r)

        probes.wrap(cls, meth, pre, post)

    swk = lambda m, s: m.sw_key(s)  # noqa: E731
    fsk = lambda m, f: m.fs_key(f)  # noqa: E731

    # ---- scans
    def live_files(m, folder):
        return {("file", folder.sys_log.hostname, folder.name, f.name) for f in folder.files.values() if not f.deleted}

    def node_scan_activity(m, nt):
        """first scan call made directly by Node.apply_timestep: the node scan is completing; what it has to cover is
        what exists at this moment (later in the same tick a database restore may create files)"""
        nt.info["activity"] += 1
        if nt.info["activity"] == 1:
            node = m.nodes[nt.key[1]]
            req = {("sw", nt.key[1], n) for n in node.software_manager.software}
            for fo in node.file_system.folders.values():
                req |= live_files(m, fo)
            nt.info["required"] = req
            nt.info["apps"] = {s.name for s in node.applications.values()}

    def sw_scan_pre(m, r, sw, a, k):
        m.cov.inc("software_scan_calls")
        nt = m.sh.find("Node.tick")
        if m.sh.in_tick and nt is not None and nt.key[1] == r.key[1]:
            node_scan_activity(m, nt)
            nt.info["scanned"].add(r.key)

    def sw_scan_post(m, r, sw, res, a, k):
        if sw.health_state_visible != sw.health_state_actual:
            m.v("scan-leaves-visible-unequal-actual/software", f"after Software.scan of {r.key}: visible "
                f"{sw.health_state_visible.name}, true {sw.health_state_actual.name}")

    region(Software, "scan", "Software.scan", swk, None, sw_scan_pre, sw_scan_post)

    def file_scan_pre(m, r, f, a, k):
        m.cov.inc("file_scan_calls")
        for rr in m.sh.regions[:-1]:
            if "scanned" in rr.info:
                rr.info["scanned"].add(r.key)

    def file_scan_post(m, r, f, res, a, k):
        if res and f.visible_health_status != f.health_status:
            m.v("scan-leaves-visible-unequal-actual/file", f"after File.scan of {r.key}: visible "
                f"{f.visible_health_status.name}, true {f.health_status.name}")

    region(File, "scan", "File.scan", fsk, None, file_scan_pre, file_scan_post)

    def scan_tick_pre(m, r, folder, a, k):
        r.info["live"] = live_files(m, folder)

    def scan_tick_post(m, r, folder, res, a, k):
        if r.info["vwrites"] or r.info["scanned"]:
            missed = sorted(r.info["live"] - r.info["scanned"])
            if missed:
                m.v("folder-scan-completion-skips-file", f"folder scan of {r.key} completed without scanning {missed}")
            m.cov.inc("folder_scan_coverage_checks")
            m.sh.completed("folder-scan", r.key)

    region(Folder, "_scan_timestep", "Folder.scan_tick", fsk, {"vwrites": 0, "scanned": set()}, scan_tick_pre, scan_tick_post)

    def scan_call_pre(m, r, folder, a, k):
        inst = bool(k.get("instant_scan", a[0] if a else False))
        r.info.update(instant=inst, vwrites=0, scanned=set(), live=live_files(m, folder))
        nt = m.sh.find("Node.tick")
        if inst and m.sh.in_tick and nt is not None and nt.key[1] == r.key[1]:
            node_scan_activity(m, nt)
            nt.info["folders"].add(r.key)

    def scan_call_post(m, r, folder, res, a, k):
        if r.info["instant"]:
            if res:
                missed = sorted(r.info["live"] - r.info["scanned"])
                if missed:
                    m.v("instant-folder-scan-skips-file", f"instant scan of {r.key} did not scan {missed}")
        elif r.info["vwrites"] or r.info["scanned"]:
            m.sh.completed("folder-scan", r.key)  # completion at the request itself

    region(Folder, "scan", "Folder.scan_call", fsk, None, scan_call_pre, scan_call_post)

    def node_key(m, node):
        h = node.config.hostname
        return ("node", h) if m.nodes.get(h) is node else None

    def node_tick_post(m, r, node, res, a, k):
        if not r.info["activity"]:
            return
        host = r.key[1]
        missed = sorted(r.info["required"] - r.info["scanned"])
        sw_missed = [k for k in missed if k[0] == "sw"]
        if sw_missed:
            kinds = sorted({"application" if k[2] in r.info["apps"] else "service" for k in sw_missed})
            m.v(f"node-scan-completion-skips/{'+'.join(kinds)}", f"node scan of {host} completed without scanning {sw_missed}")
        fmiss = [k for k in missed if k[0] == "file"]
        if fmiss:
            m.v("node-scan-completion-skips/file", f"node scan of {host} completed without scanning files {fmiss}")
        m.cov.inc("node_scan_coverage_checks")
        m.sh.completed("node-scan", r.key)
        for fo in node.file_system.folders.values():
            if fo.visible_health_status != fo.health_status:
                m.cov.hit("diag_folder_visible_differs_from_true_after_node_scan", f"{fo.visible_health_status.name}|{fo.health_status.name}")

    region(Node, "apply_timestep", "Node.tick", node_key, {"activity": 0, "scanned": set(), "folders": set()}, None, node_tick_post)

    # ---- true-health event regions
    region(Software, "_update_fix_status", "fix_status", swk)
    region(DatabaseService, "_update_fix_status", "fix_status", swk)
    region(Service, "start", "start", swk)
    region(Application, "run", "start", swk)
    region(IOSoftware, "add_connection", "add_connection", swk)
    region(DatabaseService, "_process_sql", "process_sql", swk)
    region(WebServer, "_handle_get_request", "web_get", swk)

    def install_key(m, app):
        return m.sw_key(app) if app.operating_state.name == "INSTALLING" else None

    region(Application, "apply_timestep", "install_tick", install_key)

    def restore_backup_post(m, r, svc, res, a, k):
        key = ("file", r.key[1], "database", "database.db")
        f = m.resolve(key)
        if f is not None:
            m.sh.adopt(key, f.health_status.name, None, "database-restore")  # new object for the path: visible must carry over
            m.objs[key] = f
        m.cov.hit("db_restore_results", str(bool(res)))

    region(DatabaseService, "restore_backup", "restore_backup", swk, None, None, restore_backup_post)

    def store_post(m, r, svc, res, a, k):
        payload = k.get("payload", a[0] if a else None)
        try:
            key = ("file", r.key[1], payload.ftp_command_args["dest_folder_name"], payload.ftp_command_args["dest_file_name"])
        except Exception:
            return
        f = m.resolve(key)
        if f is not None and res:
            m.sh.adopt(key, f.health_status.name, f.visible_health_status.name, "ftp-store")

    region(FTPServiceABC, "_store_data", "store_data", swk, None, None, store_post)

    def fs_host(m, fs):
        h = fs.sys_log.hostname
        return ("fs", h) if h in m.nodes and m.nodes[h].file_system is fs else None

    def create_pre(m, r, fs, a, k):
        r.info["before"] = {id(f) for fo in list(fs.folders.values()) + list(fs.deleted_folders.values())
                            for f in [fo] + list(fo.files.values()) + list(fo.deleted_files.values())}

    def create_post(m, r, fs, res, a, k):
        if res is None or id(res) in r.info["before"]:
            return
        key = m.fs_key(res)
        if key is not None:
            m.sh.adopt(key, res.health_status.name, res.visible_health_status.name, "created")
        if hasattr(res, "folder_name"):  # a file created in a folder that did not exist
            fo = fs.get_folder(res.folder_name)
            if fo is not None and id(fo) not in r.info["before"] and m.fs_key(fo) is not None:
                m.sh.adopt(("folder", r.key[1], fo.name), fo.health_status.name, fo.visible_health_status.name, "created")

    region(FileSystem, "create_file", "create_file", fs_host, None, create_pre, create_post)
    region(FileSystem, "create_folder", "create_folder", fs_host, None, create_pre, create_post)

    # ---- folder restore
    def restoring_pre(m, r, folder, a, k):
        r.info["was_deleted"] = bool(folder.deleted)
        r.info["countdown"] = folder.restore_countdown

    def restoring_post(m, r, folder, res, a, k):
        if r.info["calls"] or r.info["awrites"]:
            m.sh.completed("folder-restore", r.key)
        if r.info["countdown"] == 1 and folder.restore_countdown == 0 and not r.info["was_deleted"]:
            # the restore just completed: whatever happened to the folder while it was running (a second corrupt event, an overlapping scan
            # that recomputed its health), a completed restore leaves the folder itself neither CORRUPT nor RESTORING. (What it does to
            # the files is not in the statement: an un-deleted file keeps the health it was deleted with.)
            m.cov.inc("folder_restore_completions_state_checked")
            hs = folder.health_status.name
            if hs in ("CORRUPT", "RESTORING"):
                m.sh.sink(f"folder-restore-completes-without-restoring/{hs}",
                          f"restore of {r.key} completed at tick {m.sh.now()} but the folder's true health is {hs}")

    region(Folder, "_restoring_timestep", "restoring_tick", fsk, {"calls": 0, "awrites": 0}, restoring_pre, restoring_post)

    def restore_file_pre(folder, *a, **k):
        m = mon()
        if m is None:
            return
        key = m.fs_key(folder)
        for nm in ("restoring_tick", "Folder.restore_call"):
            r = m.sh.find(nm, key)
            if r is not None:
                r.info["calls"] += 1

    probes.wrap(Folder, "restore_file", restore_file_pre, None)

    def restore_call_post(m, r, folder, res, a, k):
        if r.info["calls"]:
            m.sh.completed("folder-restore", r.key)  # completion at the request itself

    region(Folder, "restore", "Folder.restore_call", fsk, {"calls": 0}, None, restore_call_post)
    _TAPS = True


# ------------------------------------------------------------------------------------------------ monitor / driver
class Monitor:
    def __init__(self, cov, out, ctx, calib=None):
        self.cov, self.out, self.ctx = cov, out, ctx
        self.armed = False
        self.log = []
        self.nodes = {}
        self.sh = HealthShadow(self.v, cov)
        self.calib = calib  # callable (mech, d) -> k or None
        self.conns = []
        self.t = 0
        self.stop = False
        self.place = "setup"
        self.objs, self.cur, self.dups = {}, {}, {}

    def v(self, mech, msg):
        self.stop = True
        if len(self.out) < 12 and not any(o["mech"] == mech for o in self.out):
            self.out.append(viol(mech, msg, {"ctx": self.ctx, "ops": list(self.log)}))

    # ---- keys
    def sw_key(self, sw):
        sm = getattr(sw, "software_manager", None)
        node = getattr(sm, "node", None) if sm is not None else None
        if node is None:
            return None
        host = node.config.hostname
        if self.nodes.get(host) is not node or sm.software.get(sw.name) is not sw:
            return None
        return ("sw", host, sw.name)

    @staticmethod
    def _pick(live, dead, name):
        """the item a name denotes: the live one, else the most recently deleted one"""
        for x in live.values():
            if x.name == name:
                return x
        found = None
        for x in dead.values():
            if x.name == name:
                found = x
        return found

    def resolve(self, key):
        node = self.nodes.get(key[1])
        if node is None:
            return None
        if key[0] == "sw":
            return node.software_manager.software.get(key[2])
        fs = node.file_system
        fo = self._pick(fs.folders, fs.deleted_folders, key[2])
        if key[0] == "folder" or fo is None:
            return fo
        return self._pick(fo.files, fo.deleted_files, key[3])

    def fs_key(self, item):
        host = getattr(getattr(item, "sys_log", None), "hostname", None)
        if host not in self.nodes:
            return None
        key = ("file", host, item.folder_name, item.name) if hasattr(item, "folder_name") else ("folder", host, item.name)
        return key if self.resolve(key) is item else None

    def universe(self):
        u, cur, dups = {}, {}, {}
        for host, node in self.nodes.items():
            for name, sw in node.software_manager.software.items():
                k = ("sw", host, name)
                u[k] = (sw.health_state_actual.name, sw.health_state_visible.name)
                cur[k] = sw
            fs = node.file_system
            names = {fo.name for fo in fs.folders.values()} | {fo.name for fo in fs.deleted_folders.values()}
            for nm in names:
                fk = ("folder", host, nm)
                fo = self.resolve(fk)
                u[fk] = (fo.health_status.name, fo.visible_health_status.name)
                cur[fk] = fo
                dups[fk] = sum(1 for x in list(fs.folders.values()) + list(fs.deleted_folders.values()) if x.name == nm)
                allf = list(fo.files.values()) + list(fo.deleted_files.values())
                for fn in {f.name for f in allf}:
                    k = ("file", host, nm, fn)
                    f = self._pick(fo.files, fo.deleted_files, fn)
                    u[k] = (f.health_status.name, f.visible_health_status.name)
                    cur[k] = f
                    dups[k] = sum(1 for x in allf if x.name == fn)
        self.cur, self.dups = cur, dups
        return u

    def sync(self):
        """quiescent comparison by path. When the object behind a path changed and several same-named (deleted)
        incarnations exist, which one 'the item' is, is a file-system question (C15), not judged here."""
        u = self.universe()
        for key, obj in self.cur.items():
            old = self.objs.get(key)
            if old is not None and old is not obj and self.dups.get(key, 0) > 1 and key in self.sh.V:
                self.sh.adopt(key, u[key][0], u[key][1], "other-incarnation-of-same-name(unjudged)")
        self.objs = dict(self.cur)
        self.sh.sync(u, self.place)

    # ---- setup
    def build(self, durs, power, backup=True):
        global MON
        MON = None  # nothing built here may be reported to a monitor of another game (nested calibration)
        d_fix, d_scan, d_rest, d_node = durs
        game = corpus.build_game(scenario(power[0], power[1], backup))
        self.sim = sim = game.simulation
        net = sim.network
        self.N, self.P = net.get_node_by_hostname(HOST), net.get_node_by_hostname(PEER)
        self.nodes = {HOST: self.N, PEER: self.P}
        N = self.N
        for sw in N.software_manager.software.values():
            sw.config.fixing_duration = d_fix
        fs = N.file_system
        fs._default_folder_scan_duration, fs._default_folder_restore_duration = d_scan, d_rest
        fs.create_file(folder_name="d", file_name="a.txt")
        fs.create_file(folder_name="d", file_name="b.txt")
        for fo in fs.folders.values():
            fo.scan_duration, fo.restore_duration = d_scan, d_rest
        N.config.node_scan_duration = d_node
        N.software_manager.software["database-service"].max_sessions = 1
        self.durs = {"fix": d_fix, "folder-scan": d_scan, "folder-restore": d_rest, "node-scan": d_node}
        self.sh.db_file = {HOST: ("file", HOST, "database", "database.db")}
        sim.pre_timestep(0)
        self.t = 1
        sim.apply_timestep(1)  # the database service takes its backup on timestep 1
        sim.pre_timestep(1)
        MON = self
        self.sync()
        self.armed = True

    # ---- requests
    def request_of(self, op):
        kind, tgt = op
        pre = ["network", "node", HOST]
        if kind.startswith("sw_") or kind.startswith("svc_"):
            typ, name = SW[tgt]
            verb = kind.split("_", 1)[1]
            if verb == "compromise":
                return pre + [typ, name, "compromise"]
            if typ == "service":
                return form(f"node-service-{verb}", node_name=HOST, service_name=name)
            return form(f"node-application-{verb}", node_name=HOST, application_name=name)
        if kind.startswith("file_"):
            fo, fi = FILES[tgt]
            return form(f"node-file-{kind.split('_', 1)[1]}", node_name=HOST, folder_name=fo, file_name=fi)
        if kind == "fs_restore_file":
            fo, fi = FILES[tgt]
            return pre + ["file_system", "restore", "file", fo, fi]
        if kind == "folder_corrupt":
            return pre + ["file_system", "folder", FOLDERS[tgt], "corrupt"]
        if kind == "folder_delete":
            return pre + ["file_system", "delete", "folder", FOLDERS[tgt]]
        if kind == "fs_restore_folder":
            return pre + ["file_system", "restore", "folder", FOLDERS[tgt]]
        if kind.startswith("folder_"):
            return form(f"node-folder-{kind.split('_', 1)[1]}", node_name=HOST, folder_name=FOLDERS[tgt])
        if kind == "os_scan":
            return form("node-os-scan", node_name=HOST)
        if kind in ("shutdown", "startup"):
            return form(f"node-{kind}", node_name=HOST)
        if kind == "app_install":
            return form("node-application-install", node_name=HOST, application_name=SW[tgt][1])
        if kind == "app_remove":
            return form("node-application-remove", node_name=HOST, application_name=SW[tgt][1])
        raise ValueError(kind)

    def key_of(self, op):
        kind, tgt = op
        if kind.startswith("sw_") or kind.startswith("svc_") or kind.startswith("app_"):
            return ("sw", HOST, SW[tgt][1])
        if kind.startswith("file_") or kind == "fs_restore_file":
            return ("file", HOST) + FILES[tgt]
        if kind.startswith("folder_") or kind == "fs_restore_folder":
            return ("folder", HOST, FOLDERS[tgt])
        return ("node", HOST)

    def k_of(self, mech, d):
        if mech == "fix":
            return max(d, 1)
        return self.calib(mech, d) if self.calib else None

    def tick(self):
        sh = self.sh
        self.t += 1
        sh.in_tick = True
        try:
            self.sim.apply_timestep(self.t)
        finally:
            sh.in_tick = False
        sh.tick_end()
        self.sim.pre_timestep(self.t)
        self.cov.inc("ticks")
        self.place = "tick"
        self.sync()

    def apply(self, op):
        kind, tgt = op
        sh, N = self.sh, self.N
        self.log.append([kind, tgt])
        self.cov.hit("ops", kind)
        if kind == "tick":
            self.tick()
            return
        if kind in ("peer_connect", "peer_disconnect", "sql_delete", "sql_encrypt"):
            sh.op = (kind, ("node", HOST))
            try:
                cli = self.P.software_manager.software["database-client"]
                if kind == "peer_connect":
                    c = cli.get_new_connection()
                    if c is not None:
                        self.conns.append(c)
                    self.log[-1].append(c is not None)
                elif kind == "peer_disconnect":
                    if self.conns:
                        self.conns.pop(0).disconnect()
                else:
                    c = cli.get_new_connection()
                    ok = None
                    if c is not None:
                        ok = c.query("DELETE" if kind == "sql_delete" else "ENCRYPT")
                        c.disconnect()
                    self.log[-1].append(ok)
                    self.cov.hit("sql_attacks", f"{kind}|{ok}")
            finally:
                sh.op = None
            self.place = kind
            self.sync()
            return
        key = self.key_of(op)
        req = self.request_of(op)
        state_before = N.operating_state.name
        sh.op = (kind, key)
        try:
            resp = self.sim.apply_request(req)
        finally:
            sh.op = None
        self.place = kind
        status = getattr(resp, "status", None)
        ok = status == "success"
        self.log[-1].append(status)
        self.cov.hit("responses", f"{kind}|{status}")
        if state_before != "ON":
            self.cov.inc("requests_while_node_not_on")
        # ---- obligations created by accepted requests
        if ok:
            if kind == "sw_fix":
                sw = self.resolve(key)
                d = sw.config.fixing_duration
                now = sw.health_state_actual.name
                if now != "FIXING" and not (d == 0 and now == "GOOD"):
                    self.v("fix-accepted-but-not-fixing", f"fix of {key} answered success, true health is {now}")
                if now == "FIXING":
                    sh.start("fix", key, d, self.k_of("fix", d))
                self.cov.hit("cells", f"software|fix|d={d}")
            elif kind == "folder_scan":
                d = self.resolve(key).scan_duration
                sh.start("folder-scan", key, d, self.k_of("folder-scan", d))
                self.cov.hit("cells", f"folder|scan|d={d}")
            elif kind in ("folder_restore", "fs_restore_folder"):
                d = self.resolve(key).restore_duration
                sh.start("folder-restore", key, d, self.k_of("folder-restore", d))
                self.cov.hit("cells", f"folder|restore|d={d}")
            elif kind == "os_scan":
                d = N.config.node_scan_duration
                sh.start("node-scan", key, d, self.k_of("node-scan", d))
                self.cov.hit("cells", f"node|scan|d={d}")
            elif kind in ("sw_scan", "file_scan"):
                obj = self.resolve(key)
                a, vv = (obj.health_state_actual, obj.health_state_visible) if kind == "sw_scan" else (obj.health_status, obj.visible_health_status)
                self.cov.inc("instant_scan_postchecks")
                if a != vv:
                    self.v(f"scan-leaves-visible-unequal-actual/{'software' if kind == 'sw_scan' else 'file'}",
                           f"{kind} of {key} answered success; visible {vv.name}, true {a.name}")
                self.cov.hit("cells", f"{key[0]}|scan|{a.name}")
            elif kind in ("shutdown", "startup"):
                sh.disturb(lambda tk: tk[1][1] == HOST, kind)
            elif kind == "folder_delete":
                sh.disturb(lambda tk: tk[1] == key, kind)
            else:
                self.cov.hit("cells", f"{key[0]}|{kind.split('_', 1)[1]}")
        if N.operating_state.name != state_before:
            sh.disturb(lambda tk: tk[1][1] == HOST, "power")
        self.sync()

    def drain(self):
        """bring N back ON and give every pending timed operation the time to reach its deadline"""
        N = self.N
        guard = 0
        while N.operating_state.name != "ON" and guard < 12 and not self.stop:
            guard += 1
            if N.operating_state.name == "OFF":
                self.apply(("startup", None))
            else:
                self.apply(("tick", None))
        for _ in range(max(self.durs.values()) + 2):
            if self.stop:
                break
            self.apply(("tick", None))
        for (mech, key), t in self.sh.timed.items():
            if t["free"]:
                self.cov.hit("diag_unjudged_ops_still_pending_at_end", mech)


def run_seq(ops, durs, power, cov, out, ctx, calib, backup=True):
    global MON
    install_taps()
    m = Monitor(cov, out, ctx, calib)
    try:
        m.build(durs, power, backup)
        for op in ops:
            m.apply(tuple(op))
            if m.stop:
                break
        if not m.stop:
            m.drain()
    finally:
        m.armed = False
        MON = None
    return m


def calibrate(mech, d, cov, out):
    """undisturbed straight-line run: request once, tick until the completion event; -> k (ticks after the request)"""
    global MON
    install_taps()
    ctx = {"calibration": mech, "duration": d}
    sub = Cov()
    m = Monitor(sub, out, ctx, calib=lambda mm, dd: None)
    done = {}
    outer = MON  # calibration may be triggered lazily from inside a running sequence: give the taps back afterwards
    try:
        durs = {"fix": 2, "folder-scan": 2, "folder-restore": 2, "node-scan": 2}
        durs[mech] = d
        m.build((durs["fix"], durs["folder-scan"], durs["folder-restore"], durs["node-scan"]), (0, 0))
        orig = m.sh.completed

        def completed(mc, key):
            if mc == mech and "k" not in done:
                done["k"] = m.sh.now() - t0
            return orig(mc, key)

        m.sh.completed = completed
        t0 = m.sh.tick
        if mech == "folder-scan":
            m.apply(("file_corrupt", "a"))
            m.apply(("folder_scan", "d"))
        elif mech == "folder-restore":
            m.apply(("file_corrupt", "a"))
            m.apply(("file_delete", "b"))
            m.apply(("folder_restore", "d"))
        elif mech == "node-scan":
            m.apply(("sw_compromise", "db"))
            m.apply(("os_scan", None))
        else:
            m.apply(("sw_compromise", "db"))
            m.apply(("sw_fix", "db"))
        for _ in range(d + 4):
            if "k" in done or m.stop:
                break
            m.apply(("tick", None))
    finally:
        m.armed = False
        MON = outer
    cov.inc("calibration_runs")
    k = done.get("k")
    cov.hit("calibrated_k", f"{mech}|d={d}|k={k}")
    if m.stop:
        return None  # some other violation during the calibration run: already recorded, do not judge timing from it
    dur = "duration=0" if d == 0 else "duration>0"
    if k is None:
        m.v(f"{mech}-never-completes/{dur}", f"{mech} with configured duration {d}: requested once on an undisturbed node, "
            f"no completion within {d + 4} ticks")
        return None
    allowed = {0, 1} if d == 0 else ({d} if mech == "fix" else {d, d + 1})
    if k not in allowed:
        m.v(f"{mech}-duration-mismatch/{dur}", f"{mech} with configured duration {d} completed on tick {k} after the request "
            f"(acceptable: {sorted(allowed)})")
        return None
    return k


# ------------------------------------------------------------------------------------------------ check
DUR_EXH = [((2, 1, 2, 1), (1, 0)), ((1, 2, 1, 2), (0, 1)), ((3, 3, 3, 3), (0, 0)), ((0, 0, 0, 0), (1, 1))]


class Check:
    pid = "C14"
    level = "exploration"
    rule = ("case = (fixing, folder-scan, folder-restore, node-scan durations) x (node start-up, shut-down durations) x word of "
            "operations on host N of a 3-node network (peer with database client + FTP backup server; N with database "
            "service, web server, web browser, folder d with two files): software compromise / scan / fix, service "
            "stop / start / pause / resume, file corrupt / scan / repair / restore / delete / fs-level restore, folder corrupt / "
            "scan / repair / restore / delete / fs-level restore, node OS scan, shutdown, startup, tick, SQL DELETE / ENCRYPT and "
            "connections from the peer, application install / remove. Words: every word of length 3 over a 24-op core "
            "alphabet at one (thorough: four) duration setting(s); every word of length 4 (durations 1,2; length 3 for 0,3; thorough: 5) "
            "over an 8-op timing alphabet with all four durations equal to 0,1,2,3; every pair over the 51-op alphabet; 12 hand-written "
            "words (database restore twice with a delete in between, compromise during FIXING, overlapping scans / restores, power "
            "loss mid-operation, DoS then fix, ...) x durations 0..3 x power (0,0),(1,1) x backup server on/off; random words of length 30 with random durations in {0..3} (power {0..2}). "
            "Every word is followed by a drain (node back ON, max duration + 2 ticks). Non-trivial word: at least one "
            "visible change inside a scan and one explained true-health change or timed completion; distinct by (durations, word).")
    assumptions = [
        "durations are counted in apply_timestep calls after the accepted request; fix pinned to the d-th tick (d=0,1 -> first tick) from the documented 'remains FIXING for fixing_duration timesteps'",
        "folder scan / folder restore / node scan: k in {d, d+1} (d=0: no later than the next tick), k self-calibrated per case on an undisturbed run and required in every history; with several requests pending, completion on any of the candidate ticks {request + k} is accepted, at least one no later than the latest",
        "timing is not judged across node power events (the documentation does not say whether ticks of a powered-down node count) nor after an attack hits software that is FIXING; such operations are counted as unjudged",
        "a folder's TRUE health and the VALUE of a folder's visible health are not judged (statement constrains software and files); only when a folder's visible health changes",
        "items are keyed by path; a file/folder object created by create_file/create_folder/FTP store is a new item; a database restore keeps the path's visible health",
        "OVERWHELMED and back to GOOD through IOSoftware.add_connection is an explicit event (DoS); WebServer GET /users health changes are outside the workload",
    ]
    min_monitor = {"visible_writes": 20000, "visible_changes_inside_scan": 15000, "actual_changes_explained": 5000,
                   "sync_item_compares": 1000000, "completions_judged_on_schedule": 3000, "calibration_runs": 100,
                   "folder_scan_coverage_checks": 1000, "node_scan_coverage_checks": 1000, "instant_scan_postchecks": 1500,
                   "sequences": 5000}
    case_timeout = {"quick": 1500, "thorough": 5400}

    def cases(self, tier, seed):
        specs = []
        quick = tier == "quick"
        for ci, (durs, power) in enumerate(DUR_EXH[:1] if quick else DUR_EXH):
            for first in range(len(CORE)):
                specs.append({"name": f"exh3-c{ci}-{first}", "kind": "exh", "alpha": "CORE", "depth": 3, "first": first,
                              "durs": list(durs), "power": list(power)})
        for d in range(4):
            depth = (4 if d in (1, 2) else 3) if quick else 5
            for first in range(len(TIMING)):
                specs.append({"name": f"exh{depth}t-d{d}-{first}", "kind": "exh", "alpha": "TIMING", "depth": depth,
                              "first": first, "durs": [d, d, d, d], "power": [0, 0]})
        for first in range(0, len(FULL), 3):
            specs.append({"name": f"pairs-{first}", "kind": "pairs", "firsts": list(range(first, min(first + 3, len(FULL)))),
                          "durs": [1, 1, 1, 1], "power": [0, 0], "with_tick": not quick})
        specs.append({"name": "scripted", "kind": "scripted"})
        for s in range(32 if quick else 128):
            specs.append({"name": f"rand-{seed * 1000 + s}", "kind": "rand", "seed": seed * 1000 + s, "n": 25 if quick else 120, "len": 30})
        return specs

    def run_case(self, spec):
        cov, out = Cov(), []
        words = set()
        nontriv = 0
        kcache = {}

        def calib(mech, d):
            if (mech, d) not in kcache:
                kcache[(mech, d)] = calibrate(mech, d, cov, out)
            return kcache[(mech, d)]

        def one(ops, durs, power, backup=True):
            nonlocal nontriv
            b = (cov.d.get("visible_changes_inside_scan", 0), cov.d.get("actual_changes_explained", 0),
                 sum(cov.d.get("completions_observed", {}).values()))
            run_seq(ops, tuple(durs), tuple(power), cov, out, {"durs": list(durs), "power": list(power), "backup": backup, "ops": [list(o) for o in ops]},
                    calib, backup)
            cov.inc("sequences")
            a = (cov.d.get("visible_changes_inside_scan", 0), cov.d.get("actual_changes_explained", 0),
                 sum(cov.d.get("completions_observed", {}).values()))
            if a[0] > b[0] and (a[1] > b[1] or a[2] > b[2]):
                nontriv += 1
                if len(words) < 3000:
                    words.add(digest([durs, power, ops]))

        if spec["kind"] == "exh":
            alpha = CORE if spec["alpha"] == "CORE" else TIMING
            for d in set(spec["durs"]):
                for mech in TIMED_MECHS:
                    calib(mech, d)
            for tail in itertools.product(range(len(alpha)), repeat=spec["depth"] - 1):
                ops = [alpha[spec["first"]]] + [alpha[i] for i in tail]
                one(ops, spec["durs"], spec["power"])
                if len(out) >= 8:
                    break
        elif spec["kind"] == "scripted":
            for name, ops in SCRIPTED.items():
                for d in range(4):
                    for power, backup in (((0, 0), True), ((1, 1), True), ((0, 0), False)):
                        cov.hit("scripted_words", name)
                        one(ops, [d, d, d, d], power, backup)
        elif spec["kind"] == "pairs":
            for f in spec["firsts"]:
                for second in FULL:
                    one([FULL[f], second], spec["durs"], spec["power"])
                    if spec.get("with_tick"):
                        one([FULL[f], ("tick", None), second], spec["durs"], spec["power"])
        else:
            rnd = random.Random(spec["seed"])
            for _ in range(spec["n"]):
                durs = [rnd.choice([0, 1, 2, 3]) for _ in range(4)]
                power = [rnd.choice([0, 1, 2]), rnd.choice([0, 1, 2])]
                backup = rnd.random() < 0.85
                ops = []
                for _ in range(spec["len"]):
                    r = rnd.random()
                    ops.append(("tick", None) if r < 0.22 else rnd.choice(CORE) if r < 0.7 else rnd.choice(FULL))
                one(ops, durs, power, backup)
                if len(out) >= 8:
                    break
        cov.inc("nontrivial_sequences", nontriv)
        cov.d["words"] = sorted(words)
        return {"violations": out, "cov": cov.d, "nontrivial": nontriv > 0, "digest": digest(spec),
                "sample": {"case": spec, "sequences": cov.d.get("sequences"), "nontrivial": nontriv}}

    def post(self, specs, results, tier, seed):
        w = set()
        for r in results:
            if r and "cov" in r:
                w |= set(r["cov"].get("words", []))
        return {"digests": sorted(w)}


CHECK = Check()
