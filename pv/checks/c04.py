"""C04 - episodes and environment instances are isolated from one another.

Monitors:
 (a) used-vs-fresh paired run: the trajectory of episode k on an environment with an arbitrary dirty history must equal
     the trajectory of the same episode on an environment with a clean history (same seed, same actions);
 (b) instance interference: A's trajectory must not depend on whether an instance B is constructed / reset / stepped /
     closed in between A's calls (all interleavings); a third run that shields the process-global RNGs around B's calls
     classifies the mechanism;
 (c) identity leak: no simulation component / agent / observation / reward object of the old game is reachable from the
     new game after reset.
"""
from __future__ import annotations

import copy
import os
import random

from pv import corpus, envdrv, envrun, gen, snap, traj
from pv.harness import Cov, digest, viol


# ------------------------------------------------------------------------------------------------ helpers
def trace_step(env, res, norm):
    obs, rew, term, trunc, info = res
    per = {}
    for name, ag in env.game.agents.items():
        it = ag.history[-1]
        per[name] = [it.action, norm.s(traj._jsonable(it.parameters)), it.response.status, norm.s(traj._jsonable(it.response.data))]
    return [traj._jsonable(env.agent.observation_manager.current_observation), float(rew), per]


def diff_traces(a, b):
    for i, (x, y) in enumerate(zip(a, b)):
        if x == y:
            continue
        if x[0] != y[0]:
            return i, "observation", snap.first_diff(x[0], y[0])
        if x[1] != y[1]:
            return i, "reward", (x[1], y[1])
        for n in x[2]:
            if x[2][n] != y[2].get(n):
                return i, f"agent-history:{n}", (x[2][n], y[2].get(n))
        return i, "record", None
    if len(a) != len(b):
        return min(len(a), len(b)), "length", (len(a), len(b))
    return None


def leaf_of(d):
    if d and d[1] == "observation" and d[2]:
        return "/".join(p for p in str(d[2][0]).split("/") if p and not p.isdigit() and not p.startswith(("HOST", "ROUTER", "FIREWALL")))[-50:]
    if d and d[1].startswith("agent-history"):
        try:
            return "agent:" + d[2][0][0]
        except Exception:
            return "agent"
    if d and d[1] == "simulation-state" and d[2]:
        parts = [p for p in str(d[2][0]).split("/") if p]
        return "/".join(p for p in parts[-3:] if not p.isdigit() and not p.startswith("<"))[-50:]
    return d[1] if d else ""


def reachable_ids(game):
    """ids of simulation components / agents / observation / reward / request-manager objects reachable from a game"""
    from primaite.game.agent.interface import AbstractAgent
    from primaite.game.agent.observations.observations import AbstractObservation
    from primaite.game.agent.rewards import AbstractReward
    from primaite.simulator.core import RequestManager, SimComponent

    kinds = (SimComponent, AbstractAgent, AbstractObservation, AbstractReward, RequestManager)
    seen, found = set(), {}
    stack = [game]
    while stack:
        o = stack.pop()
        if id(o) in seen:
            continue
        seen.add(id(o))
        if isinstance(o, kinds):
            found[id(o)] = type(o).__name__
        if isinstance(o, dict):
            stack.extend(o.values())
            continue
        if isinstance(o, (list, tuple, set, frozenset)):
            stack.extend(o)
            continue
        if isinstance(o, (str, bytes, int, float, bool, type(None), type)):
            continue
        mod = type(o).__module__ or ""
        if not (mod.startswith("primaite") or isinstance(o, kinds)):
            continue
        d = getattr(o, "__dict__", None)
        if isinstance(d, dict):
            stack.extend(d.values())
        priv = getattr(o, "__pydantic_private__", None)
        if isinstance(priv, dict):
            stack.extend(priv.values())
        extra = getattr(o, "__pydantic_extra__", None)
        if isinstance(extra, dict):
            stack.extend(extra.values())
    return found


# ------------------------------------------------------------------------------------------------ (a) used vs fresh
def case_used_fresh(spec, cov, out):
    rnd = random.Random(spec["seed"])
    src = spec["src"]
    names = None
    if src[0] == "gen":
        cfg, meta = gen.gen(src[1]["seed"], src[1].get("family"), src[1].get("knobs"))
        n = len(meta["actions"])
    elif src[0] == "folder":
        n = 60
    else:
        cfg = corpus.shipped(src[1])
        n = len(next(a for a in cfg["agents"] if a["type"] == "proxy-agent")["action_space"]["action_map"])
    k = spec.get("episode", 1)
    dirty = [[rnd.randrange(n) for _ in range(spec["dirty_steps"])] for _ in range(k)]
    probe = [0 if rnd.random() < 0.3 else rnd.randrange(n) for _ in range(spec["probe_steps"])]
    base = {"src": src, "seed": spec["seed"], "keep_obs": True, "max_len": max(spec["dirty_steps"], spec["probe_steps"]) + 2,
            "same_seed_each_episode": False, "norm_per_episode": True}
    used = traj.run_child({**base, "actions": dirty + [probe]}, hashseed=0)
    fresh = traj.run_child({**base, "actions": [[] for _ in range(k)] + [probe]}, hashseed=0)
    for nm, r in (("used", used), ("fresh", fresh)):
        if "error" in r:
            return {"harness_error": f"{nm} arm failed: {r['error'][-300:]}"}
    u = [s[1:] for s in used["steps"] if s[0] == k]
    f = [s[1:] for s in fresh["steps"] if s[0] == k]
    cov.inc("used_vs_fresh_pairs")
    cov.inc("steps_compared", len(u))
    cov.add("dirtying_action_kinds", len(set(dirty[0])))
    dv = traj.first_divergence([[0] + x for x in u], [[0] + x for x in f])
    if dv:
        i, ep, t, what, detail = dv
        leaf = leaf_of((i, what if what != "observation" else "observation", detail))
        out.append(viol(f"used-env-differs-from-fresh/{what.split(':')[0]}/{leaf}", f"{src}: episode {k} after a dirty history diverges from the same episode on a "
                        f"clean-history environment at step {t}: {what}: {str(detail)[:400]}", {"dirty": dirty, "probe": probe, "divergence": str(dv)[:1500]}))


def schedule_of(src):
    """list of file tuples of an episode-scheduled folder source"""
    import yaml

    if src[0] == "folder":
        sch = yaml.safe_load(open(os.path.join(corpus.PKG, src[1], "schedule.yaml")))["schedule"]
        return [tuple(sch[k]) for k in sorted(sch)]
    if src[1].get("pattern"):
        return [(f"overlay_{j}.yaml",) for j in src[1]["pattern"]]
    n = src[1].get("entries", 2)
    return [(f"overlay_{k}.yaml",) for k in range(n)]


def case_schedule_wrap(spec, cov, out):
    """(a') one environment run through its episode schedule and past its end (the schedule wraps) with the same seed and
    the same actions every episode: two episodes built from the same schedule entry must be identical - the first use of
    an entry must leave no trace on the second."""
    rnd = random.Random(spec["seed"])
    src = spec["src"]
    sched = schedule_of(src)
    L = len(sched)
    total = min(spec.get("max_episodes", 2 * L), L + spec.get("extra", L))
    acts = [0 if rnd.random() < 0.3 else rnd.randrange(60) for _ in range(spec["steps"])]
    # real wall clock and real entropy: since the repository fix of Frame.size neither may show up in any compared quantity
    res = traj.run_child({"src": src, "seed": spec["seed"], "keep_obs": True, "keep_state": True, "same_seed_each_episode": True,
                          "actions": [acts] * total}, hashseed=0)
    if "error" in res:
        return {"harness_error": f"schedule run failed: {res['error'][-300:]}"}
    def blur(x, under=False):
        # byte counts of frames include random identifiers (ICMP identifier, ids) whose printed length varies: keep only zero / non-zero
        if isinstance(x, dict):
            return {k: blur(v, under or k in ("traffic", "current_load", "__airspace__")) for k, v in x.items()}
        if isinstance(x, list):
            return [blur(v, under) for v in x]
        if under and isinstance(x, (int, float)) and not isinstance(x, bool):
            return x > 0
        return x

    if spec.get("blur"):  # (needed before the repository fix that made frame sizes independent of clock and ICMP identifier)
        for st in res["steps"]:
            if "<simulation-state>" in st[4]:
                st[4]["<simulation-state>"] = blur(st[4]["<simulation-state>"])
    # PrimaiteGymEnv builds entry 0 in its constructor and advances on every reset: trajectory episode e runs entry (e + 1) mod L
    by_entry = {}
    for e in range(total):
        by_entry.setdefault(((e + 1) % L, sched[(e + 1) % L]), []).append(e)
    groups = {}
    for (idx, files), eps in by_entry.items():
        groups.setdefault(files, []).extend(eps)
    for files, eps in groups.items():
        eps = sorted(eps)
        first = [[0] + s[1:] for s in res["steps"] if s[0] == eps[0]]
        for e in eps[1:]:
            later = [[0] + s[1:] for s in res["steps"] if s[0] == e]
            cov.inc("schedule_entry_reuse_pairs")
            cov.inc("steps_compared", len(later))
            dv = traj.first_divergence(first, later)
            if dv:
                i, ep, t, what, detail = dv
                leaf = leaf_of((i, what, detail))
                out.append(viol(f"reused-schedule-entry-differs-from-first-use/{what.split(':')[0]}/{leaf}",
                                f"{src}: episode {e} is built from the same files {list(files)} as episode {eps[0]} (same seed, same actions) but diverges at "
                                f"step {t}: {what}: {str(detail)[:400]}", {"actions": acts, "episodes": [eps[0], e], "divergence": str(dv)[:1500]}))
                break


# ------------------------------------------------------------------------------------------------ (b) instance pairs
INTERLEAVINGS = ["B.init-before-A.reset", "B.init+reset-mid-A", "B.step-between-A.steps", "B.close-mid-A", "B.init-before-A.init", "B.full-episode-mid-A",
                 "B.used-and-closed-before-A.init"]
# in the last one B is finished before A even exists: nothing of B may reach A (this is not the 'live instances share class-level /
# global state' situation of the known findings, so anything found here gets its own mechanism key)


def b_variant(cfg, kind, rnd):
    c = copy.deepcopy(cfg)
    net = c["simulation"]["network"]
    if kind == "equal":
        pass
    elif kind == "nmne-flip":
        if net.get("nmne_config", {}).get("capture_nmne"):
            net.pop("nmne_config", None)
        else:
            net["nmne_config"] = {"capture_nmne": True, "nmne_capture_keywords": ["DELETE"]}
    elif kind == "io-on":
        c["io_settings"] = {"save_agent_actions": True, "save_step_metadata": False, "save_pcap_logs": True, "save_sys_logs": True,
                            "save_agent_logs": True, "sys_log_level": "DEBUG", "agent_log_level": "DEBUG"}
    elif kind == "thresholds":
        c["game"]["thresholds"] = {"nmne": {"high": 3, "medium": 2, "low": 1}, "file_access": {"high": 3, "medium": 2, "low": 1},
                                   "app_executions": {"high": 3, "medium": 2, "low": 1}}
    elif kind == "other-seed":
        c["game"]["seed"] = (c["game"].get("seed") or 0) + 17
    elif kind == "obs-options":
        # B observes the same network through differently parameterised observations (other encoding lists, slot counts)
        for a in c["agents"]:
            for comp in ((a.get("observation_space") or {}).get("options") or {}).get("components", []):
                o = comp.get("options") or {}
                if comp.get("type") == "nodes":
                    o["ip_list"] = list(reversed(o.get("ip_list") or []))[:2] + ["10.9.9.9"]
                    o["port_list"] = ["SSH", "DNS"]
                    o["protocol_list"] = ["UDP"]
                    o["wildcard_list"] = ["0.0.255.255"]
                    o["num_rules"] = 4
                    o["num_ports"] = 1
                    o["num_services"], o["num_applications"], o["num_folders"], o["num_files"], o["num_nics"] = 4, 1, 3, 3, 3
                    o["include_nmne"] = not o.get("include_nmne", False)
                    o["monitored_traffic"] = {"udp": ["DNS"]}
    return c


def run_A(cfg_a, cfg_b, interleaving, acts, seed, shield_rng, cov):
    """A's trace; B (if cfg_b) is interleaved according to `interleaving`. shield_rng: save/restore global RNGs around B."""
    import numpy as np

    def with_b(fn):
        if cfg_b is None:
            return
        if shield_rng:
            st = (random.getstate(), np.random.get_state())
        try:
            fn()
        finally:
            if shield_rng:
                random.setstate(st[0])
                np.random.set_state(st[1])

    B = {}

    def b_init():
        B["env"] = envdrv.make_env(cfg_b)

    def b_reset():
        B["env"].reset(seed=seed + 99)

    def b_steps(k=3):
        e = B["env"]
        for _ in range(k):
            e.step(random.Random(k).randrange(e.action_space.n))

    if interleaving == "B.init-before-A.init":
        with_b(b_init)
    if interleaving == "B.used-and-closed-before-A.init":
        with_b(lambda: (b_init(), b_reset(), b_steps(8), b_reset(), b_steps(3), B["env"].close()))
        B.clear()
    A = envdrv.make_env(cfg_a)
    if interleaving == "B.init-before-A.reset":
        with_b(b_init)
    A.reset(seed=seed)
    norm = snap.Normaliser()
    tr = []
    half = len(acts) // 2
    for t, a in enumerate(acts):
        if t == half:
            if interleaving == "B.init+reset-mid-A":
                with_b(lambda: (b_init(), b_reset()))
            elif interleaving == "B.close-mid-A":
                with_b(lambda: (b_init(), b_reset(), b_steps(2), B["env"].close()))
            elif interleaving == "B.full-episode-mid-A":
                with_b(lambda: (b_init(), b_reset(), b_steps(10), b_reset(), b_steps(3)))
        if interleaving == "B.step-between-A.steps":
            if t == 1:
                with_b(lambda: (b_init(), b_reset()))
            elif t > 1:
                with_b(lambda: b_steps(1))
        if interleaving in ("B.init-before-A.init", "B.init-before-A.reset") and t == half:
            with_b(lambda: (b_reset(), b_steps(3)))
        try:
            res = A.step(a % A.action_space.n)
        except Exception as e:
            et, site = envrun.exc_site(e)
            tr.append(["<A.step raised>", f"{et}@{site}", str(e)[:200]])
            return tr
        tr.append(trace_step(A, res, norm))
    return tr


def class_state():
    from primaite.game.agent.observations.nic_observations import NICObservation
    from primaite.simulator.network.hardware.base import NetworkInterface

    return {"NetworkInterface.nmne_config.capture_nmne": bool(NetworkInterface.nmne_config.capture_nmne),
            "NICObservation.capture_nmne": bool(NICObservation.capture_nmne)}


def case_pair(spec, cov, out):
    rnd = random.Random(spec["seed"])
    knobs = dict(spec.get("knobs") or {})
    cfg, meta = gen.gen(spec["gen_seed"], spec.get("family"), knobs)
    cfg = envdrv.quiet(cfg)
    n = len(meta["actions"])
    acts = [0 if rnd.random() < 0.3 else rnd.randrange(n) for _ in range(spec["steps"])]
    cfg_b = b_variant(cfg, spec["b_kind"], rnd)
    inter = spec["interleaving"]
    alone = run_A(cfg, None, inter, acts, spec["seed"], False, cov)
    cs0 = class_state()
    withb = run_A(cfg, cfg_b, inter, acts, spec["seed"], False, cov)
    cs1 = class_state()
    cov.inc("instance_pairs")
    cov.hit("interleavings", inter)
    cov.hit("option_deltas", spec["b_kind"])
    cov.inc("steps_compared", len(alone))
    d = diff_traces(alone, withb)
    crash = next((x for x in withb if x and x[0] == "<A.step raised>"), None)
    if crash and not any(x and x[0] == "<A.step raised>" for x in alone):
        out.append(viol(f"instance-B-crashes-A/{crash[1]}", f"A.step raised {crash[1]}: {crash[2]} after B ({spec['b_kind']}) was {inter}; A alone runs fine",
                        {"gen_seed": spec["gen_seed"], "b_kind": spec["b_kind"], "interleaving": inter, "acts": acts}))
        return
    if d:
        shielded = run_A(cfg, cfg_b, inter, acts, spec["seed"], True, cov)
        d2 = diff_traces(alone, shielded)
        if d2 is None:
            mech = "instance-B-perturbs-A/process-global-rng"
            msg = (f"A's trajectory changes at step {d[0]} ({d[1]}) when B is {inter}; it does not when the process-global python/numpy RNG "
                   "state is saved and restored around B's calls: the instances share the global random generators")
        else:
            leaf = leaf_of(d2)
            cls = "class-level-nmne-config" if ("NMNE" in leaf.upper() or cs0 != cs1) and "NMNE" in str(d2).upper() else "other"
            mech = f"instance-B-perturbs-A/{cls}" if cls != "other" else f"instance-B-perturbs-A/other/{leaf}"
            if inter == "B.used-and-closed-before-A.init":
                mech = f"finished-earlier-instance-leaks-into-later-one/{cls if cls != 'other' else leaf}"
            msg = (f"A's trajectory changes at step {d2[0]} ({d2[1]}: {str(d2[2])[:300]}) when B ({spec['b_kind']}) is {inter}, even with the global RNGs "
                   f"shielded; class-level state before/after B: {cs0} -> {cs1}")
        out.append(viol(mech, msg, {"gen_seed": spec["gen_seed"], "b_kind": spec["b_kind"], "interleaving": inter, "acts": acts}))


def case_pair_fresh(spec, cov, out):
    """(b') the same comparison with each arm in its OWN fresh interpreter: in arm 2 an environment B is the first thing the process
    ever builds, so process-level state that the FIRST game in a process initialises for good is exposed (the in-process pair cases
    always build A alone first)."""
    from pv import pairchild

    rnd = random.Random(spec["seed"])
    cfg, meta = gen.gen(spec["gen_seed"], spec.get("family"), dict(spec.get("knobs") or {}))
    cfg = envdrv.quiet(cfg)
    n = len(meta["actions"])
    acts = [0 if rnd.random() < 0.3 else rnd.randrange(n) for _ in range(spec["steps"])]
    cfg_b = b_variant(cfg, spec["b_kind"], rnd)
    inter = spec["interleaving"]
    a1 = pairchild.run_child(cfg, None, inter, acts, spec["seed"])
    a2 = pairchild.run_child(cfg, cfg_b, inter, acts, spec["seed"])
    for nm, r in (("A alone", a1), ("B then A", a2)):
        if "error" in r:
            return {"harness_error": f"{nm} child failed: {r['error'][-300:]}"}
    cov.inc("fresh_process_pairs")
    cov.hit("option_deltas_fresh", spec["b_kind"])
    cov.inc("steps_compared", len(a1["trace"]))
    d = diff_traces(a1["trace"], a2["trace"])
    if d:
        leaf = leaf_of(d)
        out.append(viol(f"first-built-instance-leaks-into-later-one/{spec['b_kind']}/{leaf}", f"A's trajectory in a process where B ({spec['b_kind']}) was built, used and closed "
                        f"before A differs from A's trajectory in a process of its own at step {d[0]} ({d[1]}: {str(d[2])[:300]})",
                        {"gen_seed": spec["gen_seed"], "b_kind": spec["b_kind"], "interleaving": inter, "acts": acts}))


# ------------------------------------------------------------------------------------------------ (c) identity leak
def case_identity(spec, cov, out):
    rnd = random.Random(spec["seed"])
    kind, name = spec["src"]
    cfg, meta = envrun.scenario_source(kind, name)
    env = envdrv.make_env(cfg) if isinstance(cfg, dict) else envrun._env_from_path(cfg)
    env.reset(seed=spec["seed"])
    games = []
    for ep in range(spec["episodes"]):
        for t in range(spec["steps"]):
            env.step(rnd.randrange(env.action_space.n))
        old = env.game
        old_ids = reachable_ids(old)
        env.reset(seed=spec["seed"] + ep + 1)
        new_ids = reachable_ids(env.game)
        cov.inc("identity_walks")
        cov.inc("objects_walked", len(old_ids) + len(new_ids))
        shared = set(old_ids) & set(new_ids)
        games.append(old)  # keep the old game alive so ids cannot be recycled
        if shared:
            kinds = sorted({old_ids[i] for i in shared})
            out.append(viol(f"object-shared-across-reset/{kinds[0]}", f"{len(shared)} object(s) of the previous episode's game are reachable from the "
                            f"new game after reset: {kinds[:8]}", {"src": spec["src"]}))
            return


RUN = {"used_fresh": case_used_fresh, "pair": case_pair, "identity": case_identity, "schedule_wrap": case_schedule_wrap, "pair_fresh": case_pair_fresh}


class Check:
    pid = "C04"
    level = "exploration"
    rule = ("(a) used-vs-fresh: scenario x dirty history (k episodes of random actions over the full action map: power cycles, "
            "installs/uninstalls, deletes, ACL edits, logins, traffic, red/green activity) then reset(seed) + probe actions, vs the same "
            "episode index reached by step-less resets in a fresh process; incl. the three shipped episode-scheduled folders. "
            "(b) instance pairs: A vs A-with-B for all 6 interleavings x option deltas {equal, NMNE flipped, logging on, different "
            "thresholds, different seed}, with an RNG-shielded third run as classifier. (c) identity walk across resets. "
            "Non-trivial: dirty history with >=10 distinct actions / a pair in which B really ran; distinct by spec.")
    assumptions = [
        "every compared reset passes an explicit seed (without one the RNG stream legitimately continues)",
        "behaviour = observations, rewards, agent histories (opaque ids normalised per episode); log-file naming is not behaviour",
    ]
    min_monitor = {"used_vs_fresh_pairs": 8, "instance_pairs": 20, "identity_walks": 6, "steps_compared": 800, "schedule_entry_reuse_pairs": 8}
    case_timeout = {"quick": 2400, "thorough": 10800}

    def cases(self, tier, seed):
        q = tier == "quick"
        specs = []
        srcs = [["shipped", "data_manipulation.yaml"]] + ([["shipped", "uc7_config.yaml"]] if not q else [])
        for i, s in enumerate(srcs):
            specs.append({"name": f"used-{s[1]}", "kind": "used_fresh", "src": s, "seed": seed * 10 + i, "dirty_steps": 40 if q else 100,
                          "probe_steps": 30 if q else 80, "episode": 1})
        for i, f in enumerate(envrun.SHIPPED_FOLDERS):
            specs.append({"name": f"used-folder-{f}", "kind": "used_fresh", "src": ["folder", f], "seed": seed * 10 + i, "dirty_steps": 20 if q else 60,
                          "probe_steps": 16 if q else 40, "episode": 1 + (i % 2)})
        for g in range(8 if q else 40):
            sd = seed * 1000 + g
            specs.append({"name": f"used-gen-{sd}", "kind": "used_fresh", "src": ["gen", {"seed": sd}], "seed": sd, "dirty_steps": 40 if q else 80,
                          "probe_steps": 30 if q else 60, "episode": 1 + g % 2})
        for i, f in enumerate(envrun.SHIPPED_FOLDERS):
            big = f.startswith("uc7")
            specs.append({"name": f"wrap-folder-{f}", "kind": "schedule_wrap", "src": ["folder", f], "seed": seed * 10 + i, "steps": 10 if big else 20,
                          "max_episodes": (5 if q else 12) if big else 99, "extra": 2 if q else 4})
        for g in range(3 if q else 12):
            sd = seed * 1000 + 300 + g
            specs.append({"name": f"wrap-genfolder-{sd}", "kind": "schedule_wrap", "src": ["genfolder", {"seed": sd, "family": ["routed", "dmz", "lan"][g % 3], "entries": 2 + g % 2}],
                          "seed": sd, "steps": 24 if q else 50, "extra": 3})
        for g in range(2 if q else 8):  # schedules whose consecutive entries name the SAME file list ([0, 0, 1]) and schedules of length 1
            sd = seed * 1000 + 330 + g
            specs.append({"name": f"wrap-genfolder-repeat-{sd}", "kind": "schedule_wrap", "src": ["genfolder", {"seed": sd, "family": ["routed", "dmz"][g % 2], "entries": 2,
                                                                                                               "pattern": [[0, 0, 1], [0]][g % 2]}],
                          "seed": sd, "steps": 24 if q else 50, "extra": 3})
        kinds = ["equal", "nmne-flip", "io-on", "thresholds", "other-seed", "obs-options"]
        j = 0
        for inter in INTERLEAVINGS:
            for bk in kinds:
                j += 1
                # deterministic A (no stochastic scripted agents) isolates non-RNG channels; stochastic A exposes the RNG channel
                for det in (True, False) if not q else (j % 2 == 0,):
                    knobs = {"include_nmne": True, "capture_nmne": True, "p_random_agent": 0.0 if det else 0.6}
                    if inter == "B.used-and-closed-before-A.init" and bk == "nmne-flip":
                        knobs["capture_nmne"] = False  # A's scenario says nothing about NMNE capture, the finished B's did
                    specs.append({"name": f"pair-{inter}-{bk}-{'det' if det else 'sto'}", "kind": "pair", "gen_seed": seed * 1000 + 100 + j, "seed": seed * 100 + j,
                                  "interleaving": inter, "b_kind": bk, "steps": 24 if q else 60, "knobs": knobs, "family": ["routed", "lan", "dmz"][j % 3]})
        for g in range(4 if q else 12):  # more scenarios for: B captured NMNE and is gone, A's scenario does not mention NMNE capture
            j += 1
            specs.append({"name": f"pair-finished-B-nmne-{g}", "kind": "pair", "gen_seed": seed * 1000 + 150 + g, "seed": seed * 100 + j,
                          "interleaving": "B.used-and-closed-before-A.init", "b_kind": "nmne-flip", "steps": 30 if q else 60,
                          "knobs": {"include_nmne": True, "capture_nmne": False, "p_random_agent": 0.0}, "family": ["routed", "lan", "dmz"][g % 3]})
        for g, bk in enumerate(["obs-options", "thresholds", "equal", "io-on"] if q else ["obs-options", "thresholds", "equal", "io-on", "obs-options", "nmne-flip", "other-seed", "obs-options"]):
            j += 1
            specs.append({"name": f"pair-fresh-{bk}-{g}", "kind": "pair_fresh", "gen_seed": seed * 1000 + 170 + g, "seed": seed * 100 + j,
                          "interleaving": "B.used-and-closed-before-A.init", "b_kind": bk, "steps": 24 if q else 60,
                          "knobs": {"include_nmne": True, "capture_nmne": True, "p_random_agent": 0.0}, "family": ["routed", "dmz", "routed", "lan"][g % 4]})
        for i, s in enumerate([["shipped", "data_manipulation.yaml"], ["gen", {"seed": seed * 1000 + 7}], ["gen", {"seed": seed * 1000 + 8}],
                               ["folder", "mini_scenario_with_simulation_variation"]]):
            specs.append({"name": f"identity-{i}", "kind": "identity", "src": s, "seed": seed * 10 + i, "episodes": 2 if q else 4, "steps": 12 if q else 40})
        return specs

    def run_case(self, spec):
        cov, out = Cov(), []
        r = RUN[spec["kind"]](spec, cov, out)
        if isinstance(r, dict) and "harness_error" in r:
            return r
        return {"violations": out, "cov": cov.d, "nontrivial": True, "digest": digest(spec),
                "sample": {"case": {k: v for k, v in spec.items() if k != "knobs"}}}


CHECK = Check()
