"""C05 - requests resolve to a documented status; refused requests change nothing; well-addressed actions are never
'unreachable'.

Monitors: independent dry-run (where would the dispatcher stop?) + deep state snapshot before/after every refused request
+ response/exception capture at the apply_request boundary. Workload: every path of the live request tree with
full-arity argument vectors, path mutations at every depth, every registered action class crossed with the live
components it can address, in several state classes.
"""
from __future__ import annotations

import copy
import random

from pv import probes, corpus, gen, snap
from pv.harness import Cov, digest, viol
from pv.models.dryrun import dry_run

STATUSES = ("success", "failure", "unreachable", "pending")


def sig(path):
    """mechanism-level signature of a request path: node names / software / file names abstracted"""
    p = list(path)
    out = []
    i = 0
    if len(p) >= 3 and p[0] == "network" and p[1] == "node":
        out = ["node"]
        p = p[3:]
    while i < len(p):
        x = p[i]
        if x in ("service", "application") and i + 1 < len(p):
            out += [x, "*"]
            i += 2
            continue
        if x == "network_interface" and i + 1 < len(p):
            out += [x, "#"]
            i += 2
            continue
        if x in ("folder", "file") and i + 1 < len(p) and (i == 0 or p[i - 1] not in ("create", "delete", "restore")):
            out += [x, "*"]
            i += 2
            continue
        out.append(str(x) if isinstance(x, str) else "#")
        i += 1
    return "/".join(out)


NOWHERE = "10.250.250.250"  # a valid address nobody owns and (in the generated families) no route table covers


def arg_vectors(path, node, game, rnd):
    """full-arity argument vectors (valid, boundary, invalid values) for the leaf at `path`"""
    leaf = path[-1]
    par = path[-2] if len(path) > 1 else None
    fs = node.file_system if node is not None else None
    folders = [f.name for f in fs.folders.values()] if fs else ["root"]
    fo = rnd.choice(folders)
    files = [f.name for f in fs.get_folder(fo).files.values()] if fs and fs.get_folder(fo) else []
    fi = rnd.choice(files) if files else "nofile.txt"
    ips = [str(n.network_interface[1].ip_address) for n in game.simulation.network.nodes.values()
           if hasattr(n.network_interface.get(1), "ip_address")]
    ip = rnd.choice(ips) if ips else "192.168.1.99"
    if leaf == "add_rule":
        base = ["PERMIT", "tcp", ip, "NONE", 80, "ALL", "NONE", "ALL"]
        return [base + [3], ["DENY", "ALL", "ALL", "NONE", "ALL", "ALL", "NONE", "ALL", 0], base + [23], base + [24], base + [-1], base + [99]]
    if leaf == "remove_rule":
        return [[3], [0], [23], [24], [-1], [99]]
    if leaf == "configure":
        return [[{}], [{"server_ip_address": ip, "server_password": "x"}], [{"target_ip_address": ip}], [{"c2_server_ip_address": ip}]]
    if leaf == "ransomware_configure":
        return [[{"server_ip_address": ip, "payload": "ENCRYPT"}], [{}]]
    if leaf == "exfiltrate":
        return [[{"username": "admin", "password": "admin", "target_ip_address": ip, "target_file_name": fi, "target_folder_name": fo,
                  "exfiltration_folder_name": "loot"}], [{"username": "admin", "password": "admin", "target_ip_address": NOWHERE, "target_file_name": "nofile",
                                                            "target_folder_name": "nofolder", "exfiltration_folder_name": "loot"}]]
    if leaf == "terminal_command":
        return [[{"commands": [["file_system", "create", "folder", "c2"]], "ip_address": None, "username": "admin", "password": "admin"}],
                [{"commands": [["file_system", "create", "folder", "c2"]], "ip_address": ip, "username": "admin", "password": "wrong"}]]
    if leaf == "ping_scan":
        return [[{"target_ip_address": ip, "show": False}], [{"target_ip_address": [ip, "192.168.250.250"], "show": False}]]
    if leaf in ("port_scan", "network_service_recon"):
        return [[{"target_ip_address": ip, "target_port": 80, "target_protocol": "tcp", "show": False}],
                [{"target_ip_address": ip, "target_port": None, "target_protocol": None, "show": False}]]
    if leaf == "access":
        return [[fo, fi], ["nosuch", "nofile"], [fo, "nofile"]]
    if par == "create" and leaf == "file":
        return [[fo, "new_" + fi, False], [fo, fi, False], [fo, fi, True], ["newfolder", "x.txt", False], ["", "rootfile.txt", False]]
    if par == "create" and leaf == "folder":
        return [["brandnew"], [fo]]
    if par in ("delete", "restore") and leaf == "file":
        return [[fo, fi], ["nosuch", "nofile"], [fo, "nofile"]]
    if par in ("delete", "restore") and leaf == "folder":
        return [[fo], ["nosuch"], ["root"]]
    if leaf == "delete" and len(path) >= 3 and path[-3] == "folder":
        return [[fi], ["nofile"]]
    if leaf == "add_user":
        return [["bob", "pw", False], ["admin", "x", True]]
    if leaf == "change_password":
        return [["admin", "admin", "new"], ["admin", "wrong", "new"], ["ghost", "a", "b"]]
    if leaf == "disable_user":
        return [["admin"], ["ghost"]]
    if leaf in ("remote_login", "node_session_remote_login"):
        return [["admin", "admin", ip], ["admin", "wrong", ip], ["ghost", "x", ip], ["admin", "admin", NOWHERE]]
    if leaf == "remote_logout":
        return [["no-such-session-id"]]
    if leaf == "remote_logoff":
        return [[ip], [NOWHERE]]
    if leaf == "send_remote_command":
        return [[ip, {"command": ["file_system", "create", "folder", "viaremote"]}], [NOWHERE, {"command": ["file_system", "create", "folder", "viaremote"]}]]
    if leaf == "send_local_command":
        return [["admin", "admin", {"command": ["file_system", "create", "folder", "vialocal"]}], ["admin", "bad", {"command": ["os", "scan"]}]]
    if leaf == "send":
        return [[{"dest_ip_address": ip, "src_folder_name": fo, "src_file_name": fi, "dest_folder_name": "in", "dest_file_name": "f"}],
                [{"dest_ip_address": ip, "src_folder_name": "nosuch", "src_file_name": "nofile", "dest_folder_name": "in", "dest_file_name": "f"}]]
    if par == "application" and leaf in ("install", "uninstall") and len(path) >= 3 and path[-3] == "software_manager":
        return [["dos-bot"], ["web-browser"], ["no-such-application"], ["database-client"]]
    if leaf == "account":
        return [["no-such-account", "x"]]
    return [[]]


def put_in_state(game, meta, sclass, rnd):
    """drive the simulation into a state class through real requests; returns description"""
    sim = game.simulation
    hosts = list(meta["hosts"])
    h = rnd.choice(hosts)
    node = sim.network.get_node_by_hostname(h)
    req = lambda *r: sim.apply_request(["network", "node", h] + list(r))  # noqa: E731
    if sclass == "pristine":
        return "pristine"
    if sclass == "node-off":
        node.config.shut_down_duration = 0
        req("shutdown")
        return f"{h} off"
    if sclass == "node-shutting-down":
        node.config.shut_down_duration = 3
        req("shutdown")
        return f"{h} shutting down"
    if sclass == "node-booting":
        node.config.shut_down_duration = 0
        node.config.start_up_duration = 3
        req("shutdown")
        req("startup")
        return f"{h} booting"
    if sclass == "software":
        done = []
        for name, s in list(node.software_manager.software.items()):
            kind = "service" if hasattr(s, "restart_duration") else "application"
            v = rnd.choice(["stop", "disable", "pause", "restart", None]) if kind == "service" else rnd.choice(["close", None])
            if v and name not in ("arp", "icmp"):
                try:
                    req(kind, name, v)
                    done.append(f"{name}:{v}")
                except Exception:
                    pass
        return f"{h} " + ",".join(done)
    if sclass == "fs":
        fs = node.file_system
        for fo in list(fs.folders.values()):
            for f in list(fo.files.values()):
                if rnd.random() < 0.6:
                    req("file_system", "delete", "file", fo.name, f.name)
            if fo.name != "root" and rnd.random() < 0.4:
                req("file_system", "delete", "folder", fo.name)
        return f"{h} files/folders deleted"
    if sclass == "uninstalled":
        for a in meta["hosts"][h]["apps"]:
            req("software_manager", "application", "uninstall", a)
        req("network_interface", 1, "disable")
        return f"{h} apps uninstalled, nic disabled"
    if sclass == "started-late":
        # every host that the scenario configures OFF is started now and given time to boot
        started = []
        for hn in hosts:
            nd = sim.network.get_node_by_hostname(hn)
            if nd.operating_state.name == "OFF":
                nd.config.start_up_duration = 1
                sim.apply_request(["network", "node", hn, "startup"])
                started.append(hn)
        for t in range(1, 4):
            sim.apply_timestep(t)
            sim.pre_timestep(t + 1)
        return "started late: " + ",".join(started)
    if sclass == "timed-pending":
        # every timed operation of the host is already running (folder scan / restore, node scan, fix, restart, install): the same
        # requests arriving again must still be answered with a documented status
        fs = node.file_system
        done = []
        for fo in list(fs.folders.values()):
            fo.scan_duration, fo.restore_duration = 3, 3
            req("file_system", "folder", fo.name, "restore")
            req("file_system", "folder", fo.name, "scan")
            done.append(fo.name)
        req("os", "scan")
        for name, sw in list(node.software_manager.software.items()):
            kind = "service" if hasattr(sw, "restart_duration") else "application"
            if name in ("arp", "icmp", "user-manager", "user-session-manager"):
                continue
            req(kind, name, rnd.choice(["fix", "fix", "restart"] if kind == "service" else ["fix"]))
        for a in meta["hosts"][h]["apps"][:1]:
            req("software_manager", "application", "uninstall", a)
            req("software_manager", "application", "install", a)
        sim.apply_timestep(1)
        sim.pre_timestep(2)
        return f"{h} timed operations pending on " + ",".join(done)
    if sclass == "recreated":
        # names that were deleted / removed and then created again: the request tree must now address the NEW objects
        fs = node.file_system
        done = []
        for fo in list(fs.folders.values()):
            for f in list(fo.files.values())[:2]:
                req("file_system", "delete", "file", fo.name, f.name)
                req("file_system", "create", "file", fo.name, f.name, False)
                done.append(f"{fo.name}/{f.name}")
        req("file_system", "create", "folder", "again")
        req("file_system", "create", "file", "again", "x.txt", False)
        req("file_system", "delete", "folder", "again")
        req("file_system", "create", "folder", "again")
        req("file_system", "create", "file", "again", "x.txt", False)
        for a in meta["hosts"][h]["apps"][:2]:
            req("software_manager", "application", "uninstall", a)
            req("software_manager", "application", "install", a)
            done.append(a)
        for t in range(1, 8):  # let installs complete
            sim.apply_timestep(t)
            sim.pre_timestep(t + 1)
        return f"{h} recreated " + ",".join(done)
    raise ValueError(sclass)


SCLASSES = ["pristine", "node-off", "node-shutting-down", "node-booting", "software", "fs", "uninstalled", "recreated", "timed-pending"]


# ------------------------------------------------------------------------------------------------ routing monitor
_ROUTE = {"cur": None}  # the request being dispatched by ReqMonitor.submit and the live object its path names


def addressed_object(sim, req):
    """('file'|'folder'|'software', live object) named by a node-level request path, or None"""
    if len(req) < 5 or req[0] != "network" or req[1] != "node":
        return None
    node = sim.network.get_node_by_hostname(req[2]) if isinstance(req[2], str) else None
    if node is None:
        return None
    r = req[3:]
    if r[0] in ("service", "application") and isinstance(r[1], str):
        obj = node.software_manager.software.get(r[1])
        return ("software", obj) if obj is not None else None
    if r[0] == "file_system" and r[1] == "folder" and len(r) >= 4 and isinstance(r[2], str):
        folder = node.file_system.get_folder(r[2])
        if folder is None:
            return None
        if r[3] == "file" and len(r) >= 6 and isinstance(r[4], str):
            f = folder.get_file(r[4])
            return ("file", f) if f is not None else None
        return ("folder", folder)
    return None


def names_missing_component(sim, req):
    """kind of the component ('software' | 'folder' | 'file') that a node-level request path names although the node has no such LIVE
    component at submission time (looked up on the objects, independently of the request tree), else None"""
    if len(req) < 5 or req[0] != "network" or req[1] != "node" or not isinstance(req[2], str):
        return None
    node = sim.network.get_node_by_hostname(req[2])
    if node is None:
        return None
    r = req[3:]
    if r[0] in ("service", "application") and isinstance(r[1], str):
        return "software" if r[1] not in node.software_manager.software else None
    if r[0] == "file_system" and r[1] == "folder" and len(r) >= 4 and isinstance(r[2], str):
        folder = node.file_system.get_folder(r[2])
        if folder is None or folder.deleted:
            return "folder"
        if r[3] == "file" and len(r) >= 6 and isinstance(r[4], str):
            f = folder.get_file(r[4])
            if f is None or f.deleted:
                return "file"
    return None


def install_routing_taps(cov, out):
    """'routed to that component's own operation': while a request naming a live file / folder / service / application is
    dispatched, every operation invoked on an object of that kind must be invoked on the named object itself"""
    from primaite.simulator.file_system.file import File
    from primaite.simulator.file_system.folder import Folder
    from primaite.simulator.system.applications.application import Application
    from primaite.simulator.system.services.service import Service
    from primaite.simulator.system.software import Software

    def mk(kind, base, verb):
        def pre(obj, *a, **k):
            cur = _ROUTE["cur"]
            if not cur or cur["kind"] != kind or cur["depth"] != 0:
                return None
            cur["depth"] += 1
            cov.inc("routed_operations_checked")
            if obj is not cur["obj"] and cur["verb"] == verb:
                if not any(o["mech"].startswith(f"request-handled-by-other-object/{kind}/") for o in out):
                    out.append(viol(f"request-handled-by-other-object/{kind}/{verb}", f"{cur['request']} names the live {kind} {getattr(cur['obj'], 'name', '?')} (uuid "
                                    f"{getattr(cur['obj'], 'uuid', '?')}) but {type(obj).__name__}.{verb} ran on a different object (uuid {getattr(obj, 'uuid', '?')}, "
                                    f"deleted={getattr(obj, 'deleted', None)})", {"request": cur["request"]}))
            return True

        def post(obj, tok, res, exc, *a, **k):
            if tok:
                _ROUTE["cur"]["depth"] -= 1

        if verb in base.__dict__ or hasattr(base, verb):
            probes.wrap(base, verb, pre=pre, post=post, tapname=f"route:{base.__name__}.{verb}")

    for v in ("scan", "check_hash", "repair", "corrupt", "restore", "reveal_to_red"):
        mk("file", File, v)
    for v in ("scan", "check_hash", "repair", "corrupt", "reveal_to_red"):
        mk("folder", Folder, v)
    for v in ("stop", "start", "pause", "resume", "restart", "disable", "enable"):
        mk("software", Service, v)
    for v in ("run", "close", "execute"):
        mk("software", Application, v)
    for v in ("scan", "fix"):
        mk("software", Software, v)


VERB_METHOD = {"checkhash": "check_hash"}  # request verb -> method name where they differ


class ReqMonitor:
    def __init__(self, game, cov, out, ctx):
        self.game, self.cov, self.out, self.ctx = game, cov, out, ctx
        self.sim = game.simulation
        self.root = self.sim._request_manager

    def v(self, mech, msg, extra=None):
        if not any(o["mech"] == mech for o in self.out):
            self.out.append(viol(mech, msg, {"ctx": self.ctx, **(extra or {})}))

    def submit(self, request, kind, expect_refused=None, path_only=None):
        """apply one request with the full monitor; returns (status or None, dry-run)"""
        from primaite.interface.request import RequestResponse

        dr = dry_run(self.root, request)
        self.cov.inc("requests")
        self.cov.hit("dispatch_outcome", f"{dr['why']}@depth{min(dr['depth'], 9)}")
        need_snap = dr["refused"] or expect_refused
        before = snap.full(self.sim) if need_snap else None
        req_copy = copy.deepcopy(request)
        try:
            missing = names_missing_component(self.sim, request)
        except Exception:
            missing = None
        ao = None if dr["refused"] else addressed_object(self.sim, request)
        _ROUTE["cur"] = {"kind": ao[0], "obj": ao[1], "verb": VERB_METHOD.get(request[-1] if isinstance(request[-1], str) else "", request[-1]), "depth": 0,
                         "request": request} if ao else None
        try:
            resp = self.sim.apply_request(req_copy)
        except Exception as e:
            _ROUTE["cur"] = None
            if dr["why"] == "validator-raises" and "IndexError" in (dr["validator"] or ""):
                # a validator was handed too few arguments: arity, not path (not judged)
                self.cov.inc("diag_validator_short_arity")
                return None, dr
            self.v(f"request-raises/{type(e).__name__}/{sig(path_only if path_only is not None else request)}", f"apply_request({request}) raised {type(e).__name__}: {str(e)[:200]} "
                   f"(dispatcher stops at: {dr['why']} depth {dr['depth']})", {"request": request, "kind": kind})
            return None, dr
        _ROUTE["cur"] = None
        if not isinstance(resp, RequestResponse) or resp.status not in STATUSES:
            self.v(f"not-a-documented-status/{sig(path_only if path_only is not None else request)}", f"apply_request({request}) answered {resp!r}", {"request": request})
            return None, dr
        st = resp.status
        self.cov.hit("statuses", st)
        if missing:
            # independent of the dispatcher dry-run: the node has no live component of that name, whatever the request tree still routes
            self.cov.inc("requests_naming_missing_component")
            self.cov.hit("requests_naming_missing_component_by_kind", f"{missing}:{st}")
            if st == "success":
                self.v(f"request-on-missing-{missing}-answered-success/{sig(path_only if path_only is not None else request)}",
                       f"{request} names a {missing} that does not exist (live) on the node at submission time, but was answered success", {"request": request})
        if dr["refused"]:
            self.cov.inc("refused_requests")
            self.cov.hit("refusals_by_depth", str(dr["depth"]))
            if dr["why"] == "key-miss" and st != "unreachable":
                self.v(f"key-miss-not-unreachable/{sig(path_only if path_only is not None else request)}", f"{request}: no such element at depth {dr['depth']} but answered {st}", {"request": request})
            if dr["why"] == "validator":
                if st not in ("failure", "unreachable"):
                    self.v(f"validator-refusal-answered-{st}/{dr['validator']}", f"{request}: refused by {dr['validator']} at depth {dr['depth']} but answered {st}",
                           {"request": request})
                elif not resp.data or "reason" not in resp.data:
                    self.v(f"refusal-without-reason/{dr['validator']}", f"{request}: refused by {dr['validator']} without a reason in data ({resp.data})")
            if st == "success":
                self.v(f"refused-request-answered-success/{sig(path_only if path_only is not None else request)}", f"{request} answered success although refused ({dr['why']})", {"request": request})
            after = snap.full(self.sim)
            d = snap.first_diff(before, after)
            self.cov.inc("refused_state_compares")
            if d:
                self.v(f"refused-request-changed-state/{dr['why']}/{sig(path_only if path_only is not None else request)}", f"{request} was refused ({dr['why']} at depth {dr['depth']}) but state changed at "
                       f"{d[0]}: {str(d[1])[:80]} -> {str(d[2])[:80]}", {"request": request})
        elif expect_refused:
            # a mutated path that still resolves (e.g. duplicate of an element that is also a valid child) is not judged
            self.cov.inc("diag_mutation_still_resolves")
        return st, dr


def mutations(path, rnd):
    """missing / misspelt / duplicated / non-string element at every depth"""
    out = []
    for d in range(len(path)):
        out.append(("drop", d, path[:d] + path[d + 1:]))
        x = path[d]
        mis = (x + "x") if isinstance(x, str) else 9999
        out.append(("misspell", d, path[:d] + [mis] + path[d + 1:]))
        out.append(("nonstring", d, path[:d] + [rnd.choice([12345, 3.5])] + path[d + 1:]))
    if len(path) > 1:
        d = rnd.randrange(len(path))
        out.append(("duplicate", d, path[:d] + [path[d]] + path[d:]))
        i, j = rnd.sample(range(len(path)), 2)
        sw = list(path)
        sw[i], sw[j] = sw[j], sw[i]
        out.append(("swap", min(i, j), sw))
    return out


def case_tree(spec, cov, out):
    rnd = random.Random(spec["seed"])
    cfg, meta = gen.gen(spec["seed"], spec.get("family"), {"max_actions": 20})
    sclass = spec["sclass"]
    game = corpus.build_game(cfg)
    desc = put_in_state(game, meta, sclass, rnd)
    mon = ReqMonitor(game, cov, out, {"gen_seed": spec["seed"], "family": meta["family"], "state": desc})
    sim = game.simulation
    paths = sim._request_manager.get_request_types_recursively()
    rnd.shuffle(paths)
    # distinct (node type, path shape) first: the budget is spent on different handlers before repeats of the same one
    seen_keys = {}
    for p in paths:
        nt = type(sim.network.get_node_by_hostname(p[2])).__name__ if len(p) > 2 and p[0] == "network" and p[1] == "node" else "-"
        # the same path shape under different software (application/<name>/configure ...) leads to different handlers: keep them apart
        k = (nt, sig(p), p[4] if len(p) > 4 and p[3] in ("service", "application") else None)
        seen_keys[k] = seen_keys.get(k, 0) + 1
        p_rank = seen_keys[k]
        p.append(p_rank)
    # within a rank, requests that take components away (uninstall, delete, shutdown, disable ...) go last: otherwise an early one
    # turns the paths that follow into 'unreachable' and their handlers are never exercised
    taking = {"uninstall", "shutdown", "reset", "delete", "disable", "stop", "close", "pause", "remove", "logoff", "remote_logoff", "disable_user"}
    paths.sort(key=lambda p: (p[-1], any(isinstance(x, str) and x in taking for x in p[3:-1])))
    for p in paths:
        p.pop()
    cov.mx("distinct_path_shapes_by_node_type", len(seen_keys))
    budget = spec["budget"]
    if sclass == "pristine":
        budget = max(budget, len(seen_keys))  # in the pristine state every distinct handler of the scenario is exercised at least once
    cov.hit("state_classes", sclass)
    for path in paths[:budget]:
        node = None
        if len(path) > 2 and path[0] == "network" and path[1] == "node":
            node = sim.network.get_node_by_hostname(path[2])
        cov.add("distinct_paths", sig(path))
        vecs = arg_vectors(path, node, game, rnd)
        for args in vecs[: spec.get("vecs", 3)]:
            mon.submit(list(path) + list(args), "tree", path_only=path)
            if len(out) >= 8:
                return
        # path mutations keep the (first) full-arity argument vector
        muts = mutations(path, rnd)
        rnd.shuffle(muts)
        for kind, depth, mp in muts[: spec.get("muts", 4)]:
            cov.hit("mutations", kind)
            mreq = list(mp) + list(vecs[0])
            if kind in ("duplicate", "swap") and not dry_run(sim._request_manager, mreq)["refused"]:
                cov.inc("diag_mutation_still_resolves")  # the shifted elements became (garbage) arguments of a real leaf: not judged
                continue
            mon.submit(mreq, f"mutation:{kind}@{depth}", expect_refused=True, path_only=mp)
            if len(out) >= 8:
                return
        # the tree is dynamic (install/uninstall/create/delete): re-enumerate now and then
        if rnd.random() < 0.02:
            paths_now = sim._request_manager.get_request_types_recursively()
            cov.mx("tree_size", len(paths_now))


ACTION_KIND = None


def action_component_pairs(game, meta, rnd):
    """every registered action class crossed with live components of the kind it is documented for"""
    from primaite.game.agent.actions.abstract import AbstractAction

    net = game.simulation.network
    pairs = []
    reg = AbstractAction._registry
    for h in meta["hosts"]:
        node = net.get_node_by_hostname(h)
        services = [n for n, s in node.software_manager.software.items() if hasattr(s, "restart_duration")]
        apps = [n for n, s in node.software_manager.software.items() if hasattr(s, "install_duration")]
        for a in reg:
            if a.startswith("node-service-"):
                for s in services:
                    pairs.append((a, {"node_name": h, "service_name": s}))
            elif a.startswith("node-application-") and a not in ("node-application-install",):
                for ap in apps:
                    if a == "node-application-execute" and "execute" not in node.software_manager.software[ap]._request_manager.request_types:
                        continue  # execute only for applications that define it (documented as executable)
                    pairs.append((a, {"node_name": h, "application_name": ap}))
            elif a == "node-application-install":
                pairs.append((a, {"node_name": h, "application_name": "dos-bot"}))
            elif a.startswith("node-folder-"):
                for fo in node.file_system.folders.values():
                    pairs.append((a, {"node_name": h, "folder_name": fo.name}))
            elif a.startswith("node-file-"):
                for fo in node.file_system.folders.values():
                    for f in fo.files.values():
                        pairs.append((a, {"node_name": h, "folder_name": fo.name, "file_name": f.name}))
            elif a in ("node-os-scan", "node-shutdown", "node-startup", "node-reset"):
                pairs.append((a, {"node_name": h}))
            elif a in ("host-nic-enable", "host-nic-disable"):
                for p in node.network_interface:
                    pairs.append((a, {"node_name": h, "nic_num": p}))
            elif a == "node-account-add-user":
                pairs.append((a, {"node_name": h, "username": "zed", "password": "z", "is_admin": False}))
            elif a == "node-account-change-password":
                pairs.append((a, {"node_name": h, "username": "admin", "current_password": "admin", "new_password": "n"}))
            elif a == "node-account-disable-user":
                pairs.append((a, {"node_name": h, "username": "zed"}))
    acl_opts = dict(position=2, permission="DENY", src_ip="ALL", src_wildcard="NONE", src_port="ALL", dst_ip="ALL", dst_wildcard="NONE",
                    dst_port="ALL", protocol_name="ALL")
    for r in meta["routers"]:
        pairs.append(("router-acl-add-rule", {"target_router": r, **acl_opts}))
        pairs.append(("router-acl-remove-rule", {"target_router": r, "position": 2}))
        node = net.get_node_by_hostname(r)
        for p in node.network_interface:
            pairs.append(("network-port-disable", {"target_nodename": r, "port_num": p}))
            pairs.append(("network-port-enable", {"target_nodename": r, "port_num": p}))
        for a in ("node-shutdown", "node-startup", "node-reset", "node-os-scan"):
            pairs.append((a, {"node_name": r}))
    for fw in meta["firewalls"]:
        for zone in ("internal", "dmz", "external"):
            for direction in ("inbound", "outbound"):
                o = {"target_firewall_nodename": fw, "firewall_port_name": zone, "firewall_port_direction": direction}
                pairs.append(("firewall-acl-add-rule", {**o, **acl_opts}))
                pairs.append(("firewall-acl-remove-rule", {**o, "position": 2}))
    for sw in meta["switches"]:
        node = net.get_node_by_hostname(sw)
        for p in list(node.network_interface)[:2]:
            pairs.append(("network-port-disable", {"target_nodename": sw, "port_num": p}))
            pairs.append(("network-port-enable", {"target_nodename": sw, "port_num": p}))
    return pairs


def case_actions(spec, cov, out):
    """third clause: requests formed from actions that name existing components are never 'unreachable'"""
    from primaite.game.agent.actions import ActionManager

    rnd = random.Random(spec["seed"])
    cfg, meta = gen.gen(spec["seed"], spec.get("family"), {"max_actions": 20, **(spec.get("knobs") or {})})
    am = ActionManager()
    for sclass in spec["sclasses"]:
        game = corpus.build_game(cfg)
        pairs = action_component_pairs(game, meta, rnd)  # components named from the pristine live object graph
        desc = put_in_state(game, meta, sclass, rnd)
        if sclass in ("fs", "uninstalled", "recreated", "timed-pending"):
            # these classes remove components: the clause is about EXISTING components, so re-read the live graph
            pairs = action_component_pairs(game, meta, rnd)
        mon = ReqMonitor(game, cov, out, {"gen_seed": spec["seed"], "family": meta["family"], "state": desc})
        rnd.shuffle(pairs)
        cov.hit("state_classes", sclass)
        for a, o in pairs[: spec["budget"]]:
            try:
                req = am.form_request(a, o)
            except Exception as e:
                mon.v(f"form-request-raises/{a}", f"form_request({a}, {o}) raised {type(e).__name__}: {e}")
                continue
            # names must still exist at execution time (earlier actions of this loop may have removed them)
            dr0 = dry_run(game.simulation._request_manager, req)
            net = game.simulation.network
            node = net.get_node_by_hostname(o.get("node_name") or o.get("target_router") or o.get("target_firewall_nodename") or o.get("target_nodename"))
            exists = node is not None
            if exists and "service_name" in o:
                exists = o["service_name"] in node.software_manager.software
            if exists and "application_name" in o and a != "node-application-install":
                exists = o["application_name"] in node.software_manager.software
            if exists and "folder_name" in o and not a.endswith("-create"):
                fo = node.file_system.get_folder(o["folder_name"])
                exists = fo is not None
                if exists and "file_name" in o:
                    exists = fo.get_file(o["file_name"]) is not None
            if not exists:
                cov.inc("diag_component_gone")
                continue
            cov.hit("action_x_nodetype", f"{a}|{type(node).__name__}")
            st, dr = mon.submit(req, f"action:{a}", path_only=req[: dr0["depth"] + 1])
            cov.inc("action_requests")
            if dr["why"] == "key-miss" or st == "unreachable":
                mon.v(f"well-addressed-action-unreachable/{a}", f"action {a} {o} names existing components but {req} is "
                      f"{'not routable: no element ' + repr(req[dr['depth']]) + ' at depth ' + str(dr['depth']) if dr['why'] == 'key-miss' else 'answered unreachable'} "
                      f"(state class {sclass})", {"request": req})
            if len(out) >= 8:
                return


def case_remote(spec, cov, out):
    """terminal / session requests with an established remote session while the far end (or the path to it) is in each of
    the failure states: every answer must still be one of the four documented statuses, refused ones must change nothing"""
    rnd = random.Random(spec["seed"])
    fam = spec["family"]
    net = corpus.two_hosts() if fam == "lan" else corpus.routed_two_subnets()
    game = corpus.build_game(net.scenario())
    sim = game.simulation
    a, b = "pc_a", "srv_b"
    mid = "sw1" if fam == "lan" else "r1"
    nb = sim.network.get_node_by_hostname(b)
    b_ip = str(nb.network_interface[1].ip_address)
    mon = ReqMonitor(game, cov, out, {"case": spec["name"], "family": fam, "far_end_state": spec["far"]})
    sim.pre_timestep(0)
    base = ["network", "node", a, "service", "terminal"]
    st, _ = mon.submit(base + ["node_session_remote_login", "admin", "admin", b_ip], "remote:login")
    cov.hit("remote_login_status", str(st))
    if spec.get("warm", True):
        mon.submit(base + ["send_remote_command", b_ip, {"command": ["file_system", "create", "folder", "before"]}], "remote:cmd-live")
    else:  # cold: the near terminal's last exchange was as a *server* (the far end logged in to it), no command answered yet
        a_ip = str(sim.network.get_node_by_hostname(a).network_interface[1].ip_address)
        mon.submit(["network", "node", b, "service", "terminal", "node_session_remote_login", "admin", "admin", a_ip], "remote:reverse-login")
    far = spec["far"]
    nz = lambda h: setattr(sim.network.get_node_by_hostname(h).config, "shut_down_duration", 0)  # noqa: E731
    if far == "node-off":
        nz(b)
        sim.apply_request(["network", "node", b, "shutdown"])
    elif far == "nic-off":
        sim.apply_request(["network", "node", b, "network_interface", 1, "disable"])
    elif far == "terminal-stopped":
        sim.apply_request(["network", "node", b, "service", "terminal", "stop"])
    elif far == "path-down" and mid:
        nz(mid)
        sim.apply_request(["network", "node", mid, "shutdown"])
    elif far == "near-nic-off":
        sim.apply_request(["network", "node", a, "network_interface", 1, "disable"])
    elif far == "timed-out":
        for t in range(1, 14):
            sim.apply_timestep(t)
            sim.pre_timestep(t + 1)
    cov.hit("far_end_states", far)
    for t in range(3):
        mon.submit(base + ["send_remote_command", b_ip, {"command": ["file_system", "create", "folder", f"after{t}"]}], f"remote:cmd@{far}")
        mon.submit(base + ["send_remote_command", NOWHERE, {"command": ["os", "scan"]}], f"remote:cmd-nowhere@{far}")
        mon.submit(base + ["node_session_remote_login", "admin", "admin", b_ip], f"remote:login@{far}")
        mon.submit(base + ["send_local_command", "admin", "admin", {"command": ["file_system", "create", "folder", f"local{t}"]}], f"remote:local-cmd@{far}")
        cov.inc("remote_requests_in_failure_states", 4)
        sim.apply_timestep(20 + t)
        sim.pre_timestep(21 + t)
    mon.submit(base + ["remote_logoff", b_ip], f"remote:logoff@{far}")


RUN = {"tree": case_tree, "actions": case_actions, "remote": case_remote}


class Check:
    pid = "C05"
    level = "exploration"
    rule = ("(tree) every path of get_request_types_recursively() of generated lan/routed/dmz simulations (sampled to a budget per "
            "case) with full-arity argument vectors (valid, boundary, invalid values) and path mutations (drop / misspell / "
            "non-string / duplicate / swap at every depth), executed in state classes {pristine, node off, shutting down, "
            "booting, services stopped/disabled/paused/restarting + apps closed, files/folders deleted, apps uninstalled + NIC "
            "disabled}; (actions) every registered action class x every live component of the kind it addresses, in the same "
            "state classes. Non-trivial case: >=20 refused requests with state comparison AND >=20 requests reaching handlers; "
            "distinct by (generator seed, state class).")
    assumptions = [
        "'refused' = the dispatcher stops at a key lookup or a validator (independent dry-run); handler-level failure is not required to be side-effect free",
        "requests always carry a full-arity argument vector (dropping arguments is outside the stated quantifier; leaves with too few args raise IndexError, not judged)",
        "state = describe_state() + ARP/MAC tables, sessions, connections, countdowns, users, file objects (pv.snap.full); sys_log output is not state",
        "action types are crossed only with components of the kind they are documented for; execute only with applications that define it",
    ]
    min_monitor = {"requests": 5000, "refused_state_compares": 1500, "action_requests": 1000, "remote_requests_in_failure_states": 200, "routed_operations_checked": 300}
    case_timeout = {"quick": 1500, "thorough": 7200}

    def cases(self, tier, seed):
        q = tier == "quick"
        specs = []
        fams = ["lan", "routed", "dmz"]
        n = 5 if q else 24
        for s in range(n):
            for sc in SCLASSES:
                sd = seed * 1000 + s
                specs.append({"name": f"tree-{sd}-{sc}", "kind": "tree", "seed": sd, "family": fams[s % 3], "sclass": sc,
                              "budget": (320 if sc == "pristine" else 90) if q else 500, "vecs": 4, "muts": (2 if sc == "pristine" else 4) if q else 8})
        for s in range(6 if q else 30):
            sd = seed * 1000 + 500 + s
            specs.append({"name": f"actions-{sd}", "kind": "actions", "seed": sd, "family": fams[s % 3], "sclasses": SCLASSES,
                          "budget": 120 if q else 600})
        for s in range(3 if q else 9):  # a host that is configured OFF (started later or not at all): its components are addressable all the same
            sd = seed * 1000 + 560 + s
            specs.append({"name": f"actions-offhost-{sd}", "kind": "actions", "seed": sd, "family": fams[s % 3], "sclasses": ["pristine", "started-late", "node-booting"],
                          "budget": 160 if q else 600, "knobs": {"off_host": True, "min_clients": 2}})
        for s in range(2 if q else 10):  # wireless-router family: the access point's and the airspace's request paths
            sd = seed * 1000 + 300 + s
            for sc in (["pristine", SCLASSES[1 + s % (len(SCLASSES) - 1)]] if q else SCLASSES):
                specs.append({"name": f"tree-wlan-{sd}-{sc}", "kind": "tree", "seed": sd, "family": "wlan", "sclass": sc,
                              "budget": (320 if sc == "pristine" else 90) if q else 500, "vecs": 4, "muts": (2 if sc == "pristine" else 4) if q else 8})
            specs.append({"name": f"actions-wlan-{sd}", "kind": "actions", "seed": sd, "family": "wlan", "sclasses": SCLASSES, "budget": 120 if q else 600})
        for fam in ("lan", "routed"):
            for far in ("live", "node-off", "nic-off", "terminal-stopped", "path-down", "near-nic-off", "timed-out"):
                for warm in (True, False):
                    specs.append({"name": f"remote-{fam}-{far}-{'warm' if warm else 'cold'}", "kind": "remote", "seed": seed, "family": fam, "far": far, "warm": warm})
        return specs

    def run_case(self, spec):
        cov, out = Cov(), []
        import primaite.game.game  # noqa: F401

        probes.uninstall_all()
        install_routing_taps(cov, out)
        try:
            RUN[spec["kind"]](spec, cov, out)
        finally:
            probes.uninstall_all()
            _ROUTE["cur"] = None
        d = cov.d
        reach = d.get("dispatch_outcome", {})
        handlers = sum(v for k, v in reach.items() if k.startswith("handler"))
        nontrivial = d.get("refused_state_compares", 0) >= 20 and handlers >= 20
        return {"violations": out, "cov": d, "nontrivial": nontrivial, "digest": digest([spec["seed"], spec.get("sclass"), spec["kind"]]),
                "sample": {"case": {k: v for k, v in spec.items() if k != "sclasses"}, "requests": d.get("requests"),
                           "refused": d.get("refused_requests"), "paths": len(d.get("distinct_paths", []))}}


CHECK = Check()
