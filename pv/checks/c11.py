"""C11 - the action mask agrees with what the simulator would refuse before reaching a handler.

Monitor: independent dry-run (pv.models.dryrun) of EVERY action-map entry at EVERY step compared with
env.action_masks(); for the executed action the response status is compared with the dry-run verdict computed on the
pre-step state (masked-out never succeeds; allowed never refused by a permission rule).
"""
from __future__ import annotations

import numpy as np

from pv import probes, envrun
from pv.harness import Cov, digest, viol
from pv.models.dryrun import dry_run


def state_class(game, action, opts):
    """coarse class of the state the action's target is in (for coverage cells)"""
    net = game.simulation.network
    node = None
    for k in ("node_name", "target_router", "target_firewall_nodename", "target_nodename", "source_node"):
        if k in opts:
            node = net.get_node_by_hostname(opts[k])
            break
    if node is None:
        return "no-node"
    st = node.operating_state.name
    sw = None
    if "service_name" in opts:
        sw = node.software_manager.software.get(opts["service_name"])
    elif "application_name" in opts:
        sw = node.software_manager.software.get(opts["application_name"])
    if sw is not None and hasattr(sw, "operating_state"):
        return f"{st}/{sw.operating_state.name}"
    if "service_name" in opts or "application_name" in opts:
        return f"{st}/absent"
    return st


class MaskMonitor:
    def __init__(self, cov, out, ctx):
        self.cov, self.out, self.ctx = cov, out, ctx
        self.trail = []
        self.pre = None
        import random as _r

        self.rnd2 = _r.Random(str(ctx))

    def v(self, mech, msg, extra=None):
        if not any(o["mech"] == mech for o in self.out):
            self.out.append(viol(mech, msg, {"ctx": self.ctx, "last_actions": self.trail[-12:], **(extra or {})}))

    def before_step(self, env, action):
        game = env.game
        agent = env.agent
        am = agent.action_manager
        mask = np.asarray(env.action_masks()).astype(bool)
        root = game.simulation._request_manager
        self.cov.inc("steps_with_full_mask_compare")
        for i, (aname, opts) in am.action_map.items():
            try:
                req = am.form_request(aname, opts)
            except Exception as e:
                self.cov.hit("diag_form_request_raises", f"{aname}:{type(e).__name__}")
                continue
            dr = dry_run(root, req)
            self.cov.inc("mask_entry_compares")
            cell = f"{aname}|{state_class(game, aname, opts)}"
            if len(self.cov.d.get("cells", {})) < 4000:
                self.cov.hit("cells", cell)
            exp = not dr["refused"]
            if bool(mask[i]) != exp:
                if exp:
                    self.v(f"mask-forbids-but-not-refused/{aname.split('-')[1] if '-' in aname else aname}", f"step {game.step_counter}: mask[{i}]=0 for {aname} {opts} but the dispatcher "
                           f"would deliver {req} to its handler (state {state_class(game, aname, opts)})")
                else:
                    self.v(f"mask-allows-but-refused/{dr['why']}@{dr.get('level', '-')}-level/{dr['validator']}", f"step {game.step_counter}: mask[{i}]=1 for {aname} {opts} "
                           f"but {req} is refused at depth {dr['depth']} by {dr['why']} {dr['validator']} (state {state_class(game, aname, opts)})")
            if i == action:
                self.pre = (i, aname, opts, bool(mask[i]), dr, req)
        self.trail.append((game.step_counter, am.action_map.get(action)))
        # further RL agents of the same game (multi-agent use): their masks are checked the same way, and they act too - two agents
        # installing / removing software in the SAME step is the interleaving of interest
        from primaite.game.agent.interface import ProxyAgent

        for name, other in game.agents.items():
            if other is agent or not isinstance(other, ProxyAgent):
                continue
            om = other.action_manager
            omask = np.asarray(game.action_mask(name)).astype(bool)
            self.cov.inc("second_agent_mask_compares")
            for i, (aname, opts) in om.action_map.items():
                try:
                    req = om.form_request(aname, opts)
                except Exception:
                    continue
                dr = dry_run(root, req)
                self.cov.inc("mask_entry_compares")
                if bool(omask[i]) != (not dr["refused"]):
                    kind = "mask-forbids-but-not-refused" if not dr["refused"] else f"mask-allows-but-refused/{dr['why']}@{dr.get('level', '-')}-level/{dr['validator']}"
                    self.v(f"{kind}/second-agent", f"step {game.step_counter}: agent {name}: mask[{i}]={int(omask[i])} for {aname} {opts} but the independent walk of "
                           f"{req} says refused={dr['refused']} ({dr['why']} at depth {dr['depth']})")
            churn = [i for i, (a, o) in om.action_map.items() if a in ("node-application-install", "node-application-remove")]
            rr = self.rnd2.random()
            other.store_action(self.rnd2.choice(churn) if churn and rr < 0.6 else (self.rnd2.randrange(len(om.action_map)) if rr < 0.85 else 0))

    def after_step(self, env, action, res, t):
        if not self.pre:
            return
        i, aname, opts, m, dr, req = self.pre
        self.pre = None
        item = env.agent.history[-1]
        status = item.response.status
        self.cov.inc("executed_action_confirmations")
        self.cov.hit("executed", f"mask={int(m)}|{dr['why']}|{status}")
        # actions of agents that acted before the RL agent in this step may have changed the state between mask and execution;
        # only judge when the dry-run verdict recomputed now-independent clauses hold: masked-out + success is always wrong
        if not m and status == "success" and self.alone:
            self.v(f"masked-out-action-succeeded/{aname}", f"{aname} {opts}: mask 0 but response success")
        refusers = self.tracer.refused.pop(repr(list(req)), None) if getattr(self, "tracer", None) else None
        if getattr(self, "tracer", None):
            self.tracer.refused.clear()
        if m and self.alone and refusers:
            self.cov.inc("allowed_but_refused_at_execution")
            self.v(f"mask-allows-but-refused-at-execution/{refusers[0]}/{aname}", f"{aname} {opts}: mask 1 on the pre-step state, but while executing {req} the permission "
                   f"rule(s) {refusers} answered False (response {status}: {item.response.data})")
        try:
            env.action_masks()  # a second query after the step (policies / wrappers ask at various moments); must not disturb later answers
            self.cov.inc("post_step_mask_queries")
        except Exception as e:
            self.v(f"action-masks-raises-after-step/{type(e).__name__}", f"env.action_masks() after a step raised {type(e).__name__}: {e}")
        if m and self.alone and dr["why"] == "handler" and status == "unreachable":
            self.v(f"allowed-action-unreachable/{aname}", f"{aname} {opts}: mask 1, dry-run reaches handler, response unreachable {item.response.data}")

    def on_env(self, env, cfg, meta):
        # if the RL agent is the only agent acting before itself in the step, mask-time state == execution-time state
        names = list(env.game.agents)
        self.alone = names and names[0] == env._agent_name

    def after_reset(self, env, obs, ep):
        names = list(env.game.agents)
        self.alone = bool(names) and names[0] == env._agent_name
        self.trail.append(("reset", ep))
        # the mask offered for the first step of the new episode (asked for right after reset, as a policy wrapper does) must describe
        # the NEW episode's initial state
        try:
            mask = np.asarray(env.action_masks()).astype(bool)
        except Exception as e:
            self.v(f"action-masks-raises-after-reset/{type(e).__name__}", f"env.action_masks() after reset raised {type(e).__name__}: {e}")
            return
        am = env.agent.action_manager
        root = env.game.simulation._request_manager
        self.cov.inc("masks_compared_right_after_reset")
        for i, (aname, opts) in am.action_map.items():
            try:
                req = am.form_request(aname, opts)
            except Exception:
                continue
            dr = dry_run(root, req)
            self.cov.inc("mask_entry_compares")
            if bool(mask[i]) != (not dr["refused"]):
                self.v(f"mask-after-reset-disagrees/{'allows-but-refused' if dr['refused'] else 'forbids-but-not-refused'}",
                       f"episode {ep}: right after reset mask[{i}]={int(mask[i])} for {aname} {opts} but the independent walk of {req} says refused={dr['refused']} "
                       f"({dr['why']} at depth {dr['depth']}): the mask does not describe the new episode's initial state")
                break


class RefusalTracer:
    """execution-time witness, independent of the tree shape the mask walks: every permission rule (RequestPermissionValidator
    subclass) that answers False while Simulation.apply_request is dispatching a request is recorded against that request."""

    def __init__(self, cov):
        self.cov = cov
        self.stack = []
        self.raw = []
        self.path_rules = []
        self.refused = {}  # repr(request) -> [validator class names]

    def install(self):
        from primaite.simulator.core import RequestPermissionValidator
        from primaite.simulator.sim_container import Simulation

        tr = self

        def subs(c):
            for x in c.__subclasses__():
                yield x
                yield from subs(x)

        def post_val(v, tok, res, exc, *a, **k):
            if tr.stack and res is False and type(v).__name__ != "_CombinedValidator":
                # only rules on the path of the request itself: a rule refusing a NESTED request (a terminal command carried as an argument and
                # executed by the handler) is the handler's business - 'allowed' never meant 'will succeed'
                if id(v) not in tr.path_rules[0]:
                    tr.cov.inc("validator_refusals_in_nested_requests_ignored")
                    return
                tr.refused.setdefault(tr.stack[0], []).append(type(v).__name__)
                tr.cov.inc("validator_refusals_seen_during_execution")

        for c in set(subs(RequestPermissionValidator)):
            if "__call__" in c.__dict__:
                probes.wrap(c, "__call__", post=post_val, tapname=f"validator:{c.__name__}")

        def rules_on_path(root, request):
            """ids of the permission-rule objects guarding the elements of this request's own path (walk as the dispatcher walks)"""
            from primaite.simulator.core import RequestManager

            ids, cur, i = set(), root, 0

            def add(v):
                ids.add(id(v))
                for c in getattr(v, "validators", []) or []:
                    add(c)

            while i < len(request):
                key = request[i]
                if not isinstance(key, (str, int)) or key not in cur.request_types:
                    break
                rt = cur.request_types[key]
                add(rt.validator)
                nxt = rt.func if isinstance(rt.func, RequestManager) else None
                if nxt is None:
                    owner = getattr(rt.func, "__self__", None)
                    if owner is not None and getattr(rt.func, "__name__", "") == "apply_request" and isinstance(getattr(owner, "_request_manager", None), RequestManager):
                        nxt = owner._request_manager
                if nxt is None:
                    break
                cur, i = nxt, i + 1
            return ids

        def pre_apply(sim, request, *a, **k):
            tr.stack.append(repr(list(request)))
            tr.raw.append(list(request))
            tr.path_rules.append(rules_on_path(sim._request_manager, list(request)))

        def post_apply(sim, tok, res, exc, request, *a, **k):
            tr.stack.pop()
            tr.raw.pop()
            tr.path_rules.pop()

        probes.wrap(Simulation, "apply_request", pre=pre_apply, post=post_apply)


class Check:
    pid = "C11"
    level = "exploration"
    rule = ("case = masking-enabled variants of shipped UC2/UC7 and generated lan/routed/dmz scenarios (defender action map over "
            "every action type x component incl. missing targets) under power/transitional, adversarial and random policies with "
            "node durations 0-3 so that SHUTTING_DOWN/BOOTING/RESTARTING/INSTALLING/PAUSED/DISABLED/deleted states are dwelt in; at "
            "every step EVERY action-map entry's mask bit is compared with an independent dry-run of the request tree. Non-trivial: "
            ">=10 distinct (action type, target state class) cells incl. a non-ON node state; distinct by (scenario, policy, seed).")
    assumptions = [
        "'turned away before reaching its handler' = key lookup failure or a validator returning False at any level of the path (C05's refusal notion); handler-level failures are not judged (docs: allowed != will succeed)",
        "executed-action confirmation is judged only when the RL agent acts first in the step (otherwise other agents may change state between mask and execution)",
    ]
    min_monitor = {"mask_entry_compares": 100000, "steps_with_full_mask_compare": 1500, "executed_action_confirmations": 1000}
    case_timeout = {"quick": 1500, "thorough": 7200}

    def cases(self, tier, seed):
        q = tier == "quick"
        specs = []
        pols = ["power", "adversarial", "random", "power"]
        for i, f in enumerate(["data_manipulation.yaml", "uc7_config.yaml", "uc7_config_tap003.yaml"]):
            specs.append({"name": f"shipped-{f}", "src": ["shipped", f], "policy": pols[i], "seed": seed * 100 + i, "episodes": 1 if q else 2,
                          "steps": 30 if q else 200, "max_len": 30 if q else None, "force_mask": True})
        for i, pol in enumerate(["collide", "power", "adversarial"] if q else ["collide", "power", "adversarial"] * 4):
            specs.append({"name": f"uc2-fullmap-{pol}-{i}", "src": ["fullmap", {"file": "data_manipulation.yaml", "seed": seed * 10 + i}], "policy": pol,
                          "seed": seed * 100 + 20 + i, "episodes": 1 if q else 2, "steps": 60 if q else 128, "max_len": 60 if q else None, "force_mask": True})
        for i in range(6 if q else 24):  # two RL agents in one game, both installing / removing software
            src = ["fullmap", {"file": "data_manipulation.yaml", "seed": seed * 10 + i}] if i % 2 == 0 else ["gen", {"seed": seed * 1000 + 800 + i, "knobs": {"masking": True}}]
            specs.append({"name": f"two-defenders-{i}", "src": src, "policy": "churn", "seed": seed * 100 + 60 + i, "episodes": 1 if q else 2,
                          "steps": 80 if q else 128, "max_len": 80 if q else None, "force_mask": True, "two_defenders": True})
        for s in range(64 if q else 320):
            sd = seed * 1000 + s
            specs.append({"name": f"gen-{sd}", "src": ["gen", {"seed": sd, "knobs": {"masking": True, "defender_position": "first" if s % 2 else "last"}}],
                          "policy": pols[s % 4], "seed": sd, "episodes": 2, "steps": 40 if q else 96})
        for s in range(8 if q else 40):  # wireless-router family
            sd = seed * 1000 + 300 + s
            specs.append({"name": f"gen-wlan-{sd}", "src": ["gen", {"seed": sd, "family": "wlan", "knobs": {"masking": True, "defender_position": "first" if s % 2 else "last"}}],
                          "policy": pols[s % 4], "seed": sd, "episodes": 2, "steps": 40 if q else 96})
        return specs

    def run_case(self, spec):
        cov, out = Cov(), []
        kind, name = spec["src"]
        cfg, meta = envrun.scenario_source(kind, name)
        if spec.get("force_mask") and isinstance(cfg, dict):
            for a in cfg["agents"]:
                if a.get("type") == "proxy-agent":
                    a.setdefault("agent_settings", {})["action_masking"] = True
        if spec.get("two_defenders") and isinstance(cfg, dict):
            import copy as _copy

            i0 = next(i for i, a in enumerate(cfg["agents"]) if a.get("type") == "proxy-agent")
            second = _copy.deepcopy(cfg["agents"][i0])
            second["ref"] = cfg["agents"][i0]["ref"] + "_2"
            second["reward_function"] = {"reward_components": [{"type": "dummy"}]}
            cfg["agents"].insert(i0 + 1, second)
        mon = MaskMonitor(cov, out, {"scenario": spec["src"], "policy": spec["policy"], "seed": spec["seed"]})
        import primaite.game.game  # noqa: F401  (every validator class is defined once the game module tree is imported)

        probes.uninstall_all()
        mon.tracer = RefusalTracer(cov)
        mon.tracer.install()
        try:
            st = envrun.run_env(cfg, meta, [mon], spec["episodes"], spec["steps"], spec["policy"], spec["seed"], max_len=spec.get("max_len"))
        finally:
            probes.uninstall_all()
        cells = cov.d.get("cells", {})
        nonon = any(("SHUTTING_DOWN" in c or "BOOTING" in c or "|OFF" in c) for c in cells)
        return {"violations": out, "cov": cov.d, "nontrivial": len(cells) >= 10 and nonon, "digest": digest([spec["src"], spec["policy"], spec["seed"]]),
                "sample": {"case": spec, "cells": sorted(cells)[:12], "crash": st.get("crash")}}

    def post(self, specs, results, tier, seed):
        cells = set()
        for r in results:
            if r and "cov" in r:
                cells |= set(r["cov"].get("cells", {}))
        states = sorted({c.split("|")[1] for c in cells})
        return {"cov": {"distinct_cells_total": len(cells), "distinct_state_classes": states}}


CHECK = Check()
