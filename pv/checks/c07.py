"""C07 - ACL verdict = first matching rule by position, else implicit; add/remove touch one position;
each verdict increments exactly the deciding rule's hit counter.

Monitor: reference ACL (pv.models.acl_ref) driven side by side with the real AccessControlList through three front
ends (Python API, request API as formed by the real action classes, scenario loading). After every operation the
verdict, the deciding position, the whole vector of match counts and the projected rule vector (from the objects AND
from describe_state) are compared.
"""
from __future__ import annotations

import itertools
import random
from ipaddress import IPv4Address

from pv.harness import Cov, digest, viol
from pv.models.acl_ref import RefACL, rule_matches

A = [int(IPv4Address(x)) for x in ("10.0.1.2", "10.0.1.77", "10.0.2.2", "10.9.2.77")]
ZERO = 0
WILDS = [None, int(IPv4Address("0.0.0.255")), int(IPv4Address("0.0.255.255")), int(IPv4Address("255.255.255.255"))]
PROTOS = [None, "tcp", "udp", "icmp"]
RPORTS = [None, 80, 5432]
PPORTS = [80, 5432, 219, 21]
POSITIONS = [0, 1, 12, 21, 23]


NONCONTIG = [int(IPv4Address(x)) for x in ("0.0.255.0", "0.255.0.255", "0.0.0.254", "170.85.170.85")]


def addr_specs():
    """(base, wildcard) rule address specs: unspecified, exact, ranges (base with bits set under the mask), 0.0.0.0
    exact, 0.0.0.0/any, and non-contiguous wildcard masks (must-match bits below ignore bits)."""
    out = [(None, None), (A[0], None), (A[2], None), (ZERO, None)]
    out += [(A[0], WILDS[1]), (A[0], WILDS[2]), (A[2], WILDS[1]), (ZERO, WILDS[3]), (A[3], WILDS[3])]
    out += [(A[0], NONCONTIG[0]), (A[3], NONCONTIG[1])]  # 10.0.*.2 (not 10.0.1.77) ; 10.*.2.* (10.0.2.2 yes, 10.0.1.x no)
    return out


def rand_addr_spec(rnd):
    """arbitrary base and arbitrary (mostly non-contiguous) wildcard, plus packets that must / must not match it"""
    base = rnd.choice(A) ^ rnd.getrandbits(32) & rnd.choice([0xFF, 0xFFFF, 0xFF00FF, 0xFFFFFFFF])
    wild = rnd.choice(NONCONTIG + [rnd.getrandbits(32), rnd.getrandbits(32) & rnd.getrandbits(32), (1 << rnd.randrange(1, 32)) - 1])
    inside = [(base ^ (rnd.getrandbits(32) & wild)) & 0xFFFFFFFF for _ in range(3)]
    care = [b for b in range(32) if not (wild >> b) & 1]
    outside = [(x ^ (1 << rnd.choice(care))) & 0xFFFFFFFF for x in inside[:2]] if care else []
    return base & 0xFFFFFFFF, wild & 0xFFFFFFFF, inside, outside


def rule_domain():
    rules = []
    for action, proto, (s, sw), (d, dw), sp, dp in itertools.product(
        ("PERMIT", "DENY"), PROTOS, addr_specs(), addr_specs(), RPORTS, RPORTS
    ):
        rules.append(dict(action=action, protocol=proto, src=s, srcw=sw, dst=d, dstw=dw, sport=sp, dport=dp))
    return rules


def packet_domain():
    pk = []
    srcs = A + [ZERO]
    for proto in ("tcp", "udp"):
        for s, d, sp, dp in itertools.product(srcs, A, PPORTS, PPORTS):
            pk.append((proto, s, d, sp, dp))
    for s, d in itertools.product(srcs, A):
        pk.append(("icmp", s, d, None, None))
    return pk


# ------------------------------------------------------------------------------------------- real side
_frames = {}


def mk_frame(pkt):
    if pkt in _frames:
        return _frames[pkt]
    from primaite.simulator.network.protocols.icmp import ICMPPacket
    from primaite.simulator.network.transmission.data_link_layer import EthernetHeader, Frame
    from primaite.simulator.network.transmission.network_layer import IPPacket
    from primaite.simulator.network.transmission.transport_layer import TCPHeader, UDPHeader

    proto, s, d, sp, dp = pkt
    kw = dict(
        ethernet=EthernetHeader(src_mac_addr="aa:aa:aa:aa:aa:aa", dst_mac_addr="bb:bb:bb:bb:bb:bb"),
        ip=IPPacket(src_ip_address=IPv4Address(s), dst_ip_address=IPv4Address(d), protocol=proto),
    )
    if proto == "tcp":
        kw["tcp"] = TCPHeader(src_port=sp, dst_port=dp)
    elif proto == "udp":
        kw["udp"] = UDPHeader(src_port=sp, dst_port=dp)
    else:
        kw["icmp"] = ICMPPacket()
    f = Frame(**kw)
    _frames[pkt] = f
    return f


def proj_rule_obj(r):
    if r is None:
        return None
    ip = lambda x: None if x is None else int(x)  # noqa: E731
    return dict(
        action=r.action.name, protocol=r.protocol, src=ip(r.src_ip_address), srcw=ip(r.src_wildcard_mask),
        dst=ip(r.dst_ip_address), dstw=ip(r.dst_wildcard_mask), sport=r.src_port, dport=r.dst_port,
    )


def proj_rule_state(s):
    if s is None:
        return None
    ip = lambda x: None if x is None else int(IPv4Address(x))  # noqa: E731
    return dict(
        action={1: "PERMIT", 2: "DENY"}[s["action"]], protocol=s["protocol"], src=ip(s["src_ip_address"]),
        srcw=ip(s["src_wildcard_mask"]), dst=ip(s["dst_ip_address"]), dstw=ip(s["dst_wildcard_mask"]),
        sport=s["src_port"], dport=s["dst_port"],
    )


def real_vector(acl):
    return [proj_rule_obj(r) for r in acl.acl], [0 if r is None else r.match_count for r in acl.acl], acl.implicit_rule.match_count


def fmt_rule(r):
    if r is None:
        return None
    ip = lambda x: None if x is None else str(IPv4Address(x))  # noqa: E731
    return {**r, "src": ip(r["src"]), "srcw": ip(r["srcw"]), "dst": ip(r["dst"]), "dstw": ip(r["dstw"])}


def fmt_pkt(p):
    return (p[0], str(IPv4Address(p[1])), str(IPv4Address(p[2])), p[3], p[4])


_sl = []


def _syslog():
    from primaite.simulator.system.core.sys_log import SysLog

    if not _sl:
        _sl.append(SysLog("pv-acl"))
    return _sl[0]


class Pair:
    """real ACL + reference, compared after every operation."""

    def __init__(self, acl, ref, cov, out, ctx):
        self.acl, self.ref, self.cov, self.out, self.ctx = acl, ref, cov, out, ctx
        self.log = []

    def _v(self, mech, msg):
        if len(self.out) < 20:
            self.out.append(viol(mech, msg, {"ctx": self.ctx, "ops": self.log[-12:],
                                             "model_rules": {i: fmt_rule(r) for i, r in enumerate(self.ref.rules) if r}}))

    def compare_vectors(self, what):
        rules, counts, imp = real_vector(self.acl)
        n = len(self.ref.rules)
        if len(rules) != n:
            self._v("acl-size", f"real ACL has {len(rules)} positions, reference {n}")
            return
        for i in range(n):
            if rules[i] != self.ref.rules[i]:
                self._v("position-content-mismatch", f"after {what}: position {i} real={fmt_rule(rules[i])} "
                        f"expected={fmt_rule(self.ref.rules[i])}")
                return
        if counts != self.ref.counts or imp != self.ref.implicit_count:
            bad = [i for i in range(n) if counts[i] != self.ref.counts[i]]
            self._v("match-count-mismatch", f"after {what}: hit counters differ at positions {bad} "
                    f"real={[counts[i] for i in bad]} expected={[self.ref.counts[i] for i in bad]} "
                    f"implicit real={imp} expected={self.ref.implicit_count}")
            return
        st = self.acl.describe_state()
        srules = [proj_rule_state(st["acl"][i]) for i in range(len(st["acl"]))]
        scounts = [0 if st["acl"][i] is None else st["acl"][i]["match_count"] for i in range(len(st["acl"]))]
        if srules != self.ref.rules or scounts != self.ref.counts:
            self._v("state-disagrees", f"after {what}: describe_state()['acl'] differs from the rule list")
        if st["implicit_action"] != {"PERMIT": 1, "DENY": 2}[self.ref.implicit]:
            self._v("state-disagrees", "implicit action in describe_state differs")
        self.cov.inc("vector_compares")

    def check_packet(self, pkt, full=False):
        exp_perm, exp_pos = self.ref.verdict(pkt)
        perm, rule = self.acl.is_permitted(mk_frame(pkt))
        self.cov.inc("verdicts")
        if exp_pos is None:
            got_pos = None if rule is self.acl.implicit_rule else "explicit"
            self.cov.inc("decided_implicit")
        else:
            got_pos = next((i for i, r in enumerate(self.acl.acl) if r is rule), "implicit" if rule is self.acl.implicit_rule else "?")
            self.cov.hit("deciding_position", str(exp_pos))
            nm = sum(1 for r in self.ref.rules if r is not None and rule_matches(r, pkt))
            if nm > 1:
                self.cov.inc("shadowed_verdicts")
        self.log.append(("pkt", fmt_pkt(pkt), "->", perm, got_pos))
        if bool(perm) != exp_perm:
            self._v("verdict-mismatch", f"packet {fmt_pkt(pkt)}: real permitted={perm} (rule at {got_pos}) "
                    f"expected permitted={exp_perm} by position {exp_pos}")
        elif got_pos != exp_pos:
            self._v("deciding-rule-mismatch", f"packet {fmt_pkt(pkt)}: decided by {got_pos}, expected {exp_pos}")
        if full:
            self.compare_vectors(f"is_permitted{fmt_pkt(pkt)}")


# ------------------------------------------------------------------------------------------- front ends
def fe_python_add(acl, pos, rule):
    from primaite.simulator.network.hardware.nodes.network.router import ACLAction

    ip = lambda x: None if x is None else IPv4Address(x)  # noqa: E731
    acl.add_rule(action=ACLAction[rule["action"]], protocol=rule["protocol"], src_ip_address=ip(rule["src"]),
                 src_wildcard_mask=ip(rule["srcw"]), dst_ip_address=ip(rule["dst"]), dst_wildcard_mask=ip(rule["dstw"]),
                 src_port=rule["sport"], dst_port=rule["dport"], position=pos)


PORT_NAME = {80: "HTTP", 5432: "POSTGRES_SERVER", 219: "ARP", 21: "FTP"}


def action_options(rule, pos, rnd):
    """options of a *-acl-add-rule action (as a scenario's action map would give them)."""
    ip = lambda x: "ALL" if x is None else str(IPv4Address(x))  # noqa: E731
    wc = lambda x: "NONE" if x is None else str(IPv4Address(x))  # noqa: E731

    def port(p):
        if p is None:
            return "ALL"
        return PORT_NAME[p] if rnd.random() < 0.5 else p

    def proto(p):
        if p is None:
            return "ALL"
        return p.upper() if rnd.random() < 0.5 else p

    return dict(permission=rule["action"], protocol_name=proto(rule["protocol"]), src_ip=ip(rule["src"]),
                src_wildcard=wc(rule["srcw"]), src_port=port(rule["sport"]), dst_ip=ip(rule["dst"]),
                dst_wildcard=wc(rule["dstw"]), dst_port=port(rule["dport"]), position=pos)


def cfg_rule(rule):
    ip = lambda x: str(IPv4Address(x))  # noqa: E731
    d = {"action": rule["action"]}
    if rule["protocol"] is not None:
        d["protocol"] = rule["protocol"].upper()
    if rule["src"] is not None:
        d["src_ip"] = ip(rule["src"])
    if rule["srcw"] is not None:
        d["src_wildcard_mask"] = ip(rule["srcw"])
    if rule["dst"] is not None:
        d["dst_ip"] = ip(rule["dst"])
    if rule["dstw"] is not None:
        d["dst_wildcard_mask"] = ip(rule["dstw"])
    if rule["sport"] is not None:
        d["src_port"] = PORT_NAME[rule["sport"]]
    if rule["dport"] is not None:
        d["dst_port"] = PORT_NAME[rule["dport"]]
    return d


ROUTER_DEFAULT = {
    22: dict(action="PERMIT", protocol=None, src=None, srcw=None, dst=None, dstw=None, sport=219, dport=219),
    23: dict(action="PERMIT", protocol="icmp", src=None, srcw=None, dst=None, dstw=None, sport=None, dport=None),
}
FW_LISTS = [("internal", "inbound", "DENY"), ("internal", "outbound", "DENY"), ("dmz", "inbound", "DENY"),
            ("dmz", "outbound", "DENY"), ("external", "inbound", "PERMIT"), ("external", "outbound", "PERMIT")]


def wild_rule(rnd, dom):
    r = dict(rnd.choice(dom))
    # a wildcard without a base address is not expressible; keep domain consistent
    return r


# ------------------------------------------------------------------------------------------- case runners
def run_single(spec, cov, out):
    """one rule (every rule of the covering product in this chunk) x every packet; exhaustive."""
    from primaite.simulator.network.hardware.nodes.network.router import AccessControlList, ACLAction

    dom, pk = rule_domain(), packet_domain()
    lo, hi = spec["lo"], spec["hi"]
    for idx in range(lo, min(hi, len(dom))):
        rule = dom[idx]
        pos = POSITIONS[idx % len(POSITIONS)]
        imp = "PERMIT" if (idx // len(POSITIONS)) % 2 else "DENY"
        acl = AccessControlList(implicit_action=ACLAction[imp], name="t", sys_log=_syslog())
        ref = RefACL(imp)
        p = Pair(acl, ref, cov, out, {"kind": "single", "rule_index": idx, "pos": pos, "implicit": imp})
        fe_python_add(acl, pos, rule)
        ref.add(pos, rule)
        p.log.append(("add", pos, fmt_rule(rule)))
        for pkt in pk:
            p.check_packet(pkt)
        p.compare_vectors("all packets")
        cov.inc("rule_lists")
        if out:
            return


def run_lists(spec, cov, out):
    """rule lists of length 0-3 (and dense 24-rule lists) with overlap/shadowing x every packet."""
    from primaite.simulator.network.hardware.nodes.network.router import AccessControlList, ACLAction

    rnd = random.Random(spec["seed"])
    dom, pk = rule_domain(), packet_domain()
    for k in range(spec["n"]):
        imp = rnd.choice(["PERMIT", "DENY"])
        acl = AccessControlList(implicit_action=ACLAction[imp], name="t", sys_log=_syslog())
        ref = RefACL(imp)
        p = Pair(acl, ref, cov, out, {"kind": "lists", "seed": spec["seed"], "k": k, "implicit": imp})
        n = rnd.choice([0, 1, 2, 2, 3, 3, 3, 24]) if spec.get("dense", True) else rnd.choice([2, 3])
        positions = rnd.sample(range(24), min(n, 24))
        base = rnd.choice(dom)
        extra = []
        for pos in positions:
            if rnd.random() < 0.5:  # overlapping variant of the same rule: drop/alter one field, flip action
                r = dict(base)
                f = rnd.choice(["protocol", "src", "dst", "sport", "dport", "action"])
                if f == "action":
                    r["action"] = "PERMIT" if r["action"] == "DENY" else "DENY"
                elif f in ("src", "dst"):
                    r[f], r[f + "w"] = rnd.choice(addr_specs())
                elif f == "protocol":
                    r[f] = rnd.choice(PROTOS)
                else:
                    r[f] = rnd.choice(RPORTS)
                if rnd.random() < 0.5:
                    r["action"] = "PERMIT" if base["action"] == "DENY" else "DENY"
            else:
                r = dict(rnd.choice(dom))
            if rnd.random() < 0.35:  # arbitrary wildcard on one side + packets probing exactly its care / don't-care bits
                f = rnd.choice(["src", "dst"])
                b, w, inside, outside = rand_addr_spec(rnd)
                r[f], r[f + "w"] = b, w
                for x in inside + outside:
                    q = list(rnd.choice(pk))
                    q[1 if f == "src" else 2] = x
                    extra.append(tuple(q))
                cov.inc("random_wildcard_rules")
            fe_python_add(acl, pos, r)
            ref.add(pos, r)
            p.log.append(("add", pos, fmt_rule(r)))
        p.compare_vectors("build")
        pks = (pk if n < 24 else rnd.sample(pk, 150)) + extra
        for pkt in pks:
            p.check_packet(pkt)
        p.compare_vectors("all packets")
        cov.inc("rule_lists")
        if out:
            return


def _ops_loop(p, rnd, dom, pk, nops, add, remove, size_positions, cov):
    for _ in range(nops):
        op = rnd.random()
        if op < 0.35:
            pos = rnd.choice(size_positions)
            rule = dict(rnd.choice(dom))
            occupied = [i for i, r in enumerate(p.ref.rules) if r is not None]
            if occupied and rnd.random() < 0.45:
                # overwrite an occupied position with a near-copy of the rule that is there: exactly one field changed - set, unset,
                # or (for addresses) only the wildcard changed - or the action flipped; the position must then hold exactly the new rule
                pos = rnd.choice(occupied)
                rule = dict(p.ref.rules[pos])
                f = rnd.choice(["protocol", "src", "dst", "sport", "dport", "action", "srcw", "dstw"])
                if f == "action":
                    rule["action"] = "PERMIT" if rule["action"] == "DENY" else "DENY"
                elif f in ("src", "dst"):
                    rule[f], rule[f + "w"] = rnd.choice([(None, None)] + [x for x in addr_specs() if x[0] is not None])
                elif f in ("srcw", "dstw"):
                    if rule[f[:-1]] is not None:
                        rule[f] = rnd.choice([w for w in WILDS + NONCONTIG[:2] if w != rule[f]])
                elif f == "protocol":
                    rule[f] = rnd.choice([x for x in PROTOS if x != rule[f]])
                else:
                    rule[f] = rnd.choice([x for x in RPORTS if x != rule[f]])
                cov.inc("overwrites_with_near_copy")
            p.log.append(("add", pos, fmt_rule(rule)))
            ok = add(pos, rule)
            if 0 <= pos < 24:
                if ok is not False:
                    p.ref.add(pos, rule)
                cov.inc("adds")
            else:
                cov.inc("invalid_position_ops")
            p.compare_vectors(f"add_rule(position={pos})")
        elif op < 0.5:
            pos = rnd.choice(size_positions)
            p.log.append(("remove", pos))
            ok = remove(pos)
            if 0 <= pos < 24:
                if ok is not False:
                    p.ref.remove(pos)
                cov.inc("removes")
            else:
                cov.inc("invalid_position_ops")
            p.compare_vectors(f"remove_rule(position={pos})")
        else:
            for pkt in rnd.sample(pk, 6):
                p.check_packet(pkt, full=True)
        if p.out:
            return


def run_ops_python(spec, cov, out):
    from primaite.simulator.network.hardware.nodes.network.router import AccessControlList, ACLAction

    rnd = random.Random(spec["seed"])
    dom, pk = rule_domain(), packet_domain()
    for k in range(spec["n"]):
        imp = rnd.choice(["PERMIT", "DENY"])
        acl = AccessControlList(implicit_action=ACLAction[imp], name="t", sys_log=_syslog())
        p = Pair(acl, RefACL(imp), cov, out, {"kind": "ops-python", "seed": spec["seed"], "k": k})

        def add(pos, rule):
            try:
                fe_python_add(acl, pos, rule)
            except (ValueError, IndexError):
                if 0 <= pos < 24:
                    p._v("add-valid-position-raises", f"add_rule(position={pos}) raised for a valid position")
                return False

        def remove(pos):
            try:
                acl.remove_rule(pos)
            except (ValueError, IndexError):
                if 0 <= pos < 24:
                    p._v("remove-valid-position-raises", f"remove_rule({pos}) raised for a valid position")
                return False

        _ops_loop(p, rnd, dom, pk, spec["ops"], add, remove, list(range(24)) + [0, 0, 1, 23, 23, 24, 25, -1], cov)
        if out:
            return


def _mk_router():
    from primaite.simulator.network.hardware.nodes.network.router import Router

    return Router.from_config({"type": "router", "hostname": "r1", "num_ports": 2})


def _mk_firewall():
    from primaite.simulator.network.hardware.nodes.network.firewall import Firewall

    return Firewall.from_config({"type": "firewall", "hostname": "fw1"})


def run_ops_request(spec, cov, out):
    """same op streams, but every add/remove goes through the request tree exactly as agent actions form them."""
    from primaite.game.agent.actions import ActionManager  # noqa: F401  (registers action classes)
    from primaite.game.agent.actions.abstract import AbstractAction
    from primaite.interface.request import RequestResponse

    rnd = random.Random(spec["seed"])
    dom, pk = rule_domain(), packet_domain()
    am = ActionManager()
    for k in range(spec["n"]):
        use_fw = (k % 2 == 1)
        if use_fw:
            node = _mk_firewall()
            zone, direction, imp = FW_LISTS[(k // 2) % 6]
            acl = getattr(node, f"{zone}_{direction}_acl")
            ref = RefACL(imp)
            extra = dict(target_firewall_nodename="fw1", firewall_port_name=zone, firewall_port_direction=direction)
            a_add, a_rem = "firewall-acl-add-rule", "firewall-acl-remove-rule"
        else:
            node = _mk_router()
            acl = node.acl
            ref = RefACL("DENY")
            for pos, r in ROUTER_DEFAULT.items():
                ref.add(pos, r)
            extra = dict(target_router="r1")
            a_add, a_rem = "router-acl-add-rule", "router-acl-remove-rule"
        p = Pair(acl, ref, cov, out, {"kind": "ops-request", "seed": spec["seed"], "k": k, "node": "firewall" if use_fw else "router",
                                      "list": None if not use_fw else f"{zone}_{direction}"})
        p.compare_vectors("construction (documented defaults)")
        cov.hit("frontend", a_add)

        def send(req):
            # requests formed by actions start with network/node/<name>; apply at the node
            assert req[:3] == ["network", "node", node.config.hostname]
            try:
                resp = node.apply_request(req[3:])
            except Exception as e:
                return e
            if not isinstance(resp, RequestResponse):
                p._v("request-no-response", f"request {req} answered {resp!r}")
            return resp

        def add(pos, rule):
            opts = action_options(rule, pos, rnd)
            req = am.form_request(a_add, {**opts, **extra})
            p.log.append(("request", req))
            r = send(req)
            if isinstance(r, Exception):
                if 0 <= pos < 24:
                    p._v("request-raises-valid-position", f"{req} raised {type(r).__name__}: {r}")
                else:
                    cov.hit("diag_request_raises_invalid_position", type(r).__name__)
                return False
            if r.status != "success":
                if 0 <= pos < 24:
                    p._v("request-refused-valid-rule", f"{req} answered {r.status}")
                return False
            if not (0 <= pos < 24):
                p._v("request-success-invalid-position", f"{req} answered success for out-of-range position")

        def remove(pos):
            req = am.form_request(a_rem, {"position": pos, **extra})
            p.log.append(("request", req))
            r = send(req)
            if isinstance(r, Exception):
                if 0 <= pos < 24:
                    p._v("request-raises-valid-position", f"{req} raised {type(r).__name__}: {r}")
                else:
                    cov.hit("diag_request_raises_invalid_position", type(r).__name__)
                return False
            if r.status != "success":
                if 0 <= pos < 24:
                    p._v("request-refused-valid-rule", f"{req} answered {r.status}")
                return False

        _ops_loop(p, rnd, dom, pk, spec["ops"], add, remove, list(range(24)) + [0, 0, 1, 23, 24, 25, -1], cov)
        if out:
            return


def run_cfg(spec, cov, out):
    """scenario loading: Router.from_config / Firewall.from_config with acl blocks."""
    from primaite.simulator.network.hardware.nodes.network.firewall import Firewall
    from primaite.simulator.network.hardware.nodes.network.router import Router

    rnd = random.Random(spec["seed"])
    dom, pk = rule_domain(), packet_domain()
    for k in range(spec["n"]):
        nrules = rnd.choice([1, 2, 3, 5, 10])
        if k % 2 == 0:
            positions = rnd.sample(range(24), nrules)
            rules = {pos: dict(rnd.choice(dom)) for pos in positions}
            cfg = {"type": "router", "hostname": "r1", "num_ports": 2,
                   "ports": {1: {"ip_address": "10.0.1.1", "subnet_mask": "255.255.255.0"}},
                   "acl": {pos: cfg_rule(r) for pos, r in rules.items()}}
            # scenario order of the mapping must not matter: shuffle
            items = list(cfg["acl"].items())
            rnd.shuffle(items)
            cfg["acl"] = dict(items)
            node = Router.from_config(cfg)
            ref = RefACL("DENY")
            for pos, r in ROUTER_DEFAULT.items():
                ref.add(pos, r)
            for pos, r in rules.items():
                ref.add(pos, r)
            pairs = [(node.acl, ref, "router")]
            cov.hit("frontend", "Router.from_config")
        else:
            aclcfg, pairs_spec = {}, []
            for zone, direction, imp in FW_LISTS:
                positions = rnd.sample(range(24), rnd.choice([1, 2, 3]))
                rules = {pos: dict(rnd.choice(dom)) for pos in positions}
                aclcfg[f"{zone}_{direction}_acl"] = {pos: cfg_rule(r) for pos, r in rules.items()}
                pairs_spec.append((f"{zone}_{direction}_acl", imp, rules))
            cfg = {"type": "firewall", "hostname": "fw1",
                   "ports": {"external_port": {"ip_address": "10.0.1.1", "subnet_mask": "255.255.255.0"},
                             "internal_port": {"ip_address": "10.0.2.1", "subnet_mask": "255.255.255.0"}},
                   "acl": aclcfg}
            node = Firewall.from_config(cfg)
            pairs = []
            for name, imp, rules in pairs_spec:
                ref = RefACL(imp)
                for pos, r in rules.items():
                    ref.add(pos, r)
                pairs.append((getattr(node, name), ref, name))
            cov.hit("frontend", "Firewall.from_config")
        for acl, ref, name in pairs:
            p = Pair(acl, ref, cov, out, {"kind": "cfg", "seed": spec["seed"], "k": k, "list": name,
                                          "declared": {pos: fmt_rule(r) for pos, r in enumerate(ref.rules) if r}})
            p.compare_vectors("scenario loading")
            for pkt in rnd.sample(pk, 60):
                p.check_packet(pkt)
            p.compare_vectors("packets")
            cov.inc("rule_lists")
        if out:
            return


RUNNERS = {"single": run_single, "lists": run_lists, "ops-python": run_ops_python, "ops-request": run_ops_request,
           "cfg": run_cfg}


class Check:
    pid = "C07"
    level = "exploration"
    exhaustive = False
    rule = ("cases: (single) EVERY rule of the covering product action x protocol{any,tcp,udp,icmp} x 9 src specs x 9 dst "
            "specs (unspecified/exact/0.0.0.255/0.0.255.255/255.255.255.255 ranges, 0.0.0.0) x sport{any,80,5432} x "
            "dport{any,80,5432} (5832 rules) at positions {0,1,12,21,23}, both implicit actions, against EVERY packet of "
            "proto x 5 src x 4 dst x 4 sport x 4 dport (+icmp) = 660 packets; (lists) random overlapping/shadowing lists of "
            "0-3 and 24 rules x all packets; (ops-python / ops-request) random add/remove/verdict streams incl. invalid "
            "positions via Python API and via requests formed by the real Router/Firewall ACL action classes on all six "
            "firewall lists; (cfg) Router/Firewall.from_config. A case is non-trivial if it saw both rule-decided and "
            "implicit-decided verdicts; distinct by case spec digest.")
    assumptions = [
        "port 0 / protocol 'none' as rule fields are outside the judged domain (ambiguous: NONE vs unspecified)",
        "out-of-range positions: only 'no position changed' is judged here (status/exception is C05's concern)",
        "router default rules (22: ARP permit, 23: ICMP permit) are part of the documented initial list",
    ]
    min_monitor = {"verdicts": 5000, "vector_compares": 100, "shadowed_verdicts": 50, "random_wildcard_rules": 40, "overwrites_with_near_copy": 100}
    case_timeout = {"quick": 1200, "thorough": 3600}

    def cases(self, tier, seed):
        specs = []
        ndom = len(rule_domain())
        if tier == "quick":
            # exhaustive single-rule product is affordable in quick too (16 workers)
            chunk = 243
        else:
            chunk = 243
        for lo in range(0, ndom, chunk):
            specs.append({"name": f"single-{lo}", "kind": "single", "lo": lo, "hi": lo + chunk})
        nseeds = 8 if tier == "quick" else 48
        for s in range(nseeds):
            sd = seed * 1000 + s
            specs.append({"name": f"lists-{sd}", "kind": "lists", "seed": sd, "n": 12 if tier == "quick" else 40})
            specs.append({"name": f"ops-python-{sd}", "kind": "ops-python", "seed": sd, "n": 4, "ops": 60 if tier == "quick" else 200})
            specs.append({"name": f"ops-request-{sd}", "kind": "ops-request", "seed": sd, "n": 4 if tier == "quick" else 12,
                          "ops": 40 if tier == "quick" else 120})
            specs.append({"name": f"cfg-{sd}", "kind": "cfg", "seed": sd, "n": 6 if tier == "quick" else 24})
        return specs

    def run_case(self, spec):
        cov, out = Cov(), []
        RUNNERS[spec["kind"]](spec, cov, out)
        d = cov.d
        nontrivial = d.get("decided_implicit", 0) > 0 and len(d.get("deciding_position", {})) > 0
        return {"violations": out, "cov": d, "nontrivial": nontrivial, "digest": digest(spec),
                "sample": {"case": spec, "verdicts": d.get("verdicts", 0),
                           "deciding_positions": sorted(d.get("deciding_position", {}), key=int)[:8]}}

    def post(self, specs, results, tier, seed):
        done = sum(1 for s, r in zip(specs, results) if s["kind"] == "single" and r and "cov" in r and not r.get("violations"))
        total = sum(1 for s in specs if s["kind"] == "single")
        return {"cov": {"single_rule_product_chunks_complete": done, "single_rule_product_chunks_total": total,
                        "single_rule_product_exhaustive": int(done == total)}}


CHECK = Check()
