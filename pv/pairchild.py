"""Run C04's instance-pair trace (environment A, optionally with an environment B interleaved) in a FRESH interpreter, so that
whatever was built earlier in the calling process cannot have initialised process-level state first (the in-process pair runs always
build A alone before they build B-then-A).

    python -m pv.pairchild <spec.pkl>   ->  one line "@@PAIR <json>"  with {"trace": [...]} or {"error": ...}
"""
from __future__ import annotations

import json
import os
import sys


def run_child(cfg_a, cfg_b, interleaving, acts, seed, timeout=1800):
    import pickle
    import subprocess
    import tempfile

    from . import boot

    env = dict(os.environ)
    env["PYTHONHASHSEED"] = "0"
    env["PYTHONPATH"] = boot.VERIF + os.pathsep + env.get("PYTHONPATH", "")
    env["PYTHONDONTWRITEBYTECODE"] = "1"
    with tempfile.NamedTemporaryFile("wb", suffix=".pkl", delete=False) as f:
        pickle.dump({"cfg_a": cfg_a, "cfg_b": cfg_b, "interleaving": interleaving, "acts": acts, "seed": seed}, f)
        path = f.name
    try:
        p = subprocess.run([boot.VENV_PY, "-m", "pv.pairchild", path], cwd=boot.VERIF, env=env, capture_output=True, text=True, timeout=timeout)
    finally:
        os.unlink(path)
    for line in reversed(p.stdout.splitlines()):
        if line.startswith("@@PAIR "):
            return json.loads(line[7:])
    return {"error": (p.stderr or p.stdout)[-3000:], "returncode": p.returncode}


if __name__ == "__main__":
    import pickle

    spec = pickle.load(open(sys.argv[1], "rb"))
    try:
        from pv import boot

        boot.boot()
        from pv.checks import c04
        from pv.harness import Cov

        out = {"trace": c04.run_A(spec["cfg_a"], spec["cfg_b"], spec["interleaving"], spec["acts"], spec["seed"], False, Cov())}
    except BaseException as e:  # noqa
        import traceback

        out = {"error": f"{type(e).__name__}: {e}", "trace_back": traceback.format_exc()[-3000:]}
    sys.stdout.write("@@PAIR " + json.dumps(out, default=str) + "\n")
    sys.stdout.flush()
