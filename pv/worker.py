"""Worker entry point: python -m pv.worker <check-module>."""
import sys

from pv import harness

if __name__ == "__main__":
    harness.worker_main(sys.argv[1])
