"""Check harness: case fan-out over worker subprocesses, verdict discipline, evidence, known findings.

A check module (pv/checks/cXX.py) exposes a module-level object CHECK with:

    pid            "C07"
    level          evidence level ("exploration")
    rule           text: how cases are generated, what makes one non-trivial/distinct
    assumptions    list[str]
    min_monitor    dict counter-name -> minimum total required (starved => INCONCLUSIVE)
    cases(tier, seed) -> list[dict]         JSON-able case specs (each has a "name")
    run_case(spec) -> dict                  executed inside a worker process (primaite imported there):
        {"violations": [ {"mech": str, "msg": str, "witness": any}, ... ],
         "cov": {counter: int | list | {k:int}},   aggregated over cases
         "nontrivial": bool, "digest": str, "sample": any}
    post(results, tier, seed) -> dict|None  optional cross-case analysis in the parent; may return
        {"violations": [...], "cov": {...}}
"""
from __future__ import annotations

import hashlib
import importlib
import json
import os
import queue
import subprocess
import sys
import threading
import time
import traceback

from . import boot

VERIF = boot.VERIF
MARK = "@@PVRESULT "


# --------------------------------------------------------------------------------------- helpers
def digest(obj) -> str:
    return hashlib.sha256(json.dumps(obj, sort_keys=True, default=str).encode()).hexdigest()[:16]


def viol(mech: str, msg: str, witness=None) -> dict:
    return {"mech": mech, "msg": msg, "witness": witness}


class Cov:
    """Coverage counters of one case: ints are summed, lists are unioned, dicts of ints are summed per key."""

    def __init__(self):
        self.d = {}

    def inc(self, key, n=1):
        self.d[key] = self.d.get(key, 0) + n

    def add(self, key, item):
        s = self.d.setdefault(key, [])
        if item not in s:
            s.append(item)

    def hit(self, key, sub, n=1):
        dd = self.d.setdefault(key, {})
        dd[sub] = dd.get(sub, 0) + n

    def mx(self, key, val):
        k = "max:" + key
        if val > self.d.get(k, float("-inf")):
            self.d[k] = val


def merge_cov(total: dict, cov: dict):
    for k, v in (cov or {}).items():
        if isinstance(v, bool):
            v = int(v)
        if k.startswith("max:"):
            total[k] = max(total.get(k, v), v)
        elif isinstance(v, (int, float)):
            total[k] = total.get(k, 0) + v
        elif isinstance(v, list):
            s = total.setdefault(k, [])
            seen = set(json.dumps(x, sort_keys=True, default=str) for x in s)
            for x in v:
                j = json.dumps(x, sort_keys=True, default=str)
                if j not in seen:
                    seen.add(j)
                    s.append(x)
        elif isinstance(v, dict):
            dd = total.setdefault(k, {})
            for kk, vv in v.items():
                dd[kk] = dd.get(kk, 0) + vv


def load_known(pid: str):
    path = os.path.join(VERIF, "known_findings.json")
    if not os.path.exists(path):
        return {}
    data = json.load(open(path))
    out = {}
    for e in data.get("findings", []):
        if e.get("property") == pid and e.get("status", "known") == "known":
            out[e["mech"]] = e
    return out


# --------------------------------------------------------------------------------------- worker side
def worker_main(modname: str):
    """Read case specs (one JSON per line) on stdin, answer one MARK line per case on stdout."""
    boot.boot()
    mod = importlib.import_module(f"pv.checks.{modname}")
    chk = mod.CHECK
    out = sys.stdout
    for line in sys.stdin:
        line = line.strip()
        if not line:
            continue
        spec = json.loads(line)
        t0 = time.time()
        try:
            res = chk.run_case(spec)
        except BaseException as e:  # harness error inside the case: report, never judge
            res = {"harness_error": f"{type(e).__name__}: {e}", "trace": traceback.format_exc()[-4000:]}
        res["wall"] = round(time.time() - t0, 3)
        res["name"] = spec.get("name")
        out.write(MARK + json.dumps(res, default=str) + "\n")
        out.flush()


# --------------------------------------------------------------------------------------- parent side
class _Worker:
    def __init__(self, modname, env):
        self.p = subprocess.Popen(
            [boot.VENV_PY, "-m", "pv.worker", modname],
            stdin=subprocess.PIPE,
            stdout=subprocess.PIPE,
            stderr=subprocess.DEVNULL,
            cwd=VERIF,
            env=env,
            text=True,
            bufsize=1,
        )

    def run(self, spec, timeout):
        self.p.stdin.write(json.dumps(spec) + "\n")
        self.p.stdin.flush()
        box = {}

        def rd():
            try:
                while True:
                    ln = self.p.stdout.readline()
                    if not ln:
                        box["eof"] = True
                        return
                    if ln.startswith(MARK):
                        box["res"] = json.loads(ln[len(MARK) :])
                        return
            except Exception as e:  # pragma: no cover
                box["err"] = str(e)

        th = threading.Thread(target=rd, daemon=True)
        th.start()
        th.join(timeout)
        if "res" in box:
            return box["res"]
        self.kill()
        if th.is_alive():
            return {"lost": "timeout"}
        return {"lost": "worker died"}

    def alive(self):
        return self.p.poll() is None

    def kill(self):
        try:
            self.p.kill()
        except Exception:
            pass

    def close(self):
        try:
            self.p.stdin.close()
            self.p.wait(timeout=20)
        except Exception:
            self.kill()


def run_pool(modname, specs, jobs, timeout):
    env = dict(os.environ)
    env.setdefault("PYTHONHASHSEED", "0")
    env["PYTHONPATH"] = VERIF + os.pathsep + env.get("PYTHONPATH", "")
    env["PYTHONDONTWRITEBYTECODE"] = "1"
    q = queue.Queue()
    for i, s in enumerate(specs):
        q.put((i, s))
    results = [None] * len(specs)

    def loop():
        w = None
        while True:
            try:
                i, s = q.get_nowait()
            except queue.Empty:
                break
            if w is None or not w.alive():
                w = _Worker(modname, env)
            r = w.run(s, timeout)
            r.setdefault("name", s.get("name"))
            results[i] = r
            if "lost" in r:
                w = None
        if w is not None:
            w.close()

    ths = [threading.Thread(target=loop) for _ in range(max(1, min(jobs, len(specs))))]
    for t in ths:
        t.start()
    for t in ths:
        t.join()
    return results


def main(modname: str, argv):
    import argparse

    ap = argparse.ArgumentParser()
    ap.add_argument("--tier", default=os.environ.get("VERIF_TIER", "quick"))
    ap.add_argument("--replay")
    ap.add_argument("--jobs", type=int, default=int(os.environ.get("PV_JOBS", "16")))
    ap.add_argument("--only", help="substring filter on case names")
    ap.add_argument("--inproc", action="store_true", help="run cases in this process (debugging)")
    ap.add_argument("-v", action="store_true")
    a = ap.parse_args(argv)
    tier = a.tier if a.tier in ("quick", "thorough") else "quick"
    seed = int(os.environ.get("VERIF_SEED", "0"))

    if a.replay or a.inproc:
        boot.boot()
    mod = importlib.import_module(f"pv.checks.{modname}")
    chk = mod.CHECK
    pid = chk.pid

    if a.replay:
        data = json.load(open(a.replay))
        res = chk.run_case(data["spec"])
        print(json.dumps({k: res[k] for k in res if k != "cov"}, indent=1, default=str)[:20000])
        bad = res.get("violations") or []
        print(f"replay: {len(bad)} violation(s)")
        return 1 if bad else 0

    t0 = time.time()
    specs = chk.cases(tier, seed)
    if a.only:
        specs = [s for s in specs if a.only in s.get("name", "")]
    timeout = getattr(chk, "case_timeout", {}).get(tier, 1500 if tier == "quick" else 5400)
    if a.inproc:
        results = []
        for s in specs:
            try:
                r = chk.run_case(s)
            except BaseException as e:
                r = {"harness_error": f"{type(e).__name__}: {e}", "trace": traceback.format_exc()[-4000:]}
            r["name"] = s.get("name")
            results.append(r)
    else:
        results = run_pool(modname, specs, a.jobs, timeout)

    total = {}
    violations = []
    lost, herr = [], []
    digests = set()
    samples = []
    for s, r in zip(specs, results):
        if r is None or "lost" in r:
            lost.append((s.get("name"), (r or {}).get("lost")))
            continue
        if "harness_error" in r:
            herr.append((s.get("name"), r["harness_error"], r.get("trace", "")))
            continue
        merge_cov(total, r.get("cov"))
        for v in r.get("violations") or []:
            v = dict(v)
            v["case"] = s
            violations.append(v)
        if r.get("nontrivial"):
            digests.add(r.get("digest") or digest(s))
        if r.get("sample") is not None and len(samples) < 5:
            samples.append(r["sample"])
    post = getattr(chk, "post", None)
    post_incon = []
    if post:
        extra = post(specs, results, tier, seed) or {}
        merge_cov(total, extra.get("cov"))
        for v in extra.get("violations") or []:
            violations.append(dict(v))
        for sm in extra.get("samples") or []:
            if len(samples) < 8:
                samples.append(sm)
        digests |= set(extra.get("digests") or [])
        post_incon = extra.get("inconclusive") or []

    known = load_known(pid)
    known_seen, unknown = {}, []
    for v in violations:
        if v["mech"] in known:
            known_seen.setdefault(v["mech"], []).append(v)
        else:
            unknown.append(v)

    OUT = os.environ.get("PV_OUT") or VERIF  # mutation runs against scratch copies write their outputs elsewhere
    os.makedirs(os.path.join(OUT, "replays", pid), exist_ok=True)
    out_lines = []
    for mech in sorted(known):
        vs = known_seen.get(mech, [])
        seen = f"seen {len(vs)}x this run" if vs else "listed; not re-observed in this run's sample"
        out_lines.append(f"KNOWN-FINDING: property={pid} {mech}: {known[mech]['what']} ({seen})")
    seen_mech = {}
    for v in unknown:
        seen_mech.setdefault(v["mech"], []).append(v)
    for mech, vs in sorted(seen_mech.items()):
        v = vs[0]
        path = os.path.join("replays", pid, f"{mech.replace('/', '_').replace(' ', '_')[:60]}-{digest(v)}.json")
        with open(os.path.join(OUT, path), "w") as f:
            json.dump({"property": pid, "mech": mech, "msg": v["msg"], "witness": v.get("witness"),
                       "spec": v.get("case"), "count": len(vs)}, f, indent=1, default=str)
        out_lines.append(f"VIOLATION property={pid} replay={path} mech={mech} n={len(vs)} :: {v['msg'][:300]}")

    # inconclusive?
    incon = list(post_incon)
    for name, mn in (getattr(chk, "min_monitor", {}) or {}).items():
        if isinstance(mn, dict):
            mn = mn.get(tier, 0)
        got = total.get(name, 0)
        if isinstance(got, (list, dict)):
            got = len(got)
        if got < mn:
            incon.append(f"monitor '{name}' observed {got} < {mn}")
    n_ok = len(specs) - len(lost) - len(herr)
    if herr:
        incon.append(f"{len(herr)} harness error(s): {herr[0][0]}: {herr[0][1]}")
    if lost and (len(lost) > max(1, len(specs) // 4)):
        incon.append(f"{len(lost)} of {len(specs)} cases lost (timeout/worker death)")
    if n_ok == 0:
        incon.append("no case completed")

    cov_out = {}
    for k, v in total.items():
        if isinstance(v, list):
            cov_out[k] = {"distinct": len(v), "examples": v[:12]}
        else:
            cov_out[k] = v
    coverage = {
        "evaluations": n_ok,
        "distinct_nontrivial": len(digests),
        "rule": chk.rule,
        "samples": samples or [s for s in specs[:3]],
        "exhaustive": bool(getattr(chk, "exhaustive", False)),
        "monitors": cov_out,
        "cases_lost": [list(x) for x in lost],
        "known_findings_seen": {m: len(v) for m, v in known_seen.items()},
        "inconclusive_reasons": incon,
    }
    ev = {
        "property_id": pid,
        "tier": tier,
        "seed": seed,
        "level": chk.level,
        "coverage": coverage,
        "assumptions": list(getattr(chk, "assumptions", [])),
        "wall_s": round(time.time() - t0, 2),
        "violations": len(unknown),
    }
    if not a.only:
        os.makedirs(os.path.join(OUT, "evidence"), exist_ok=True)
        with open(os.path.join(OUT, "evidence", f"{pid}.json"), "w") as f:
            json.dump(ev, f, indent=1, default=str)

    for ln in out_lines:
        print(ln)
    for name, e, tr in herr[:5]:
        print(f"HARNESS-ERROR case={name} {e}")
        if a.v:
            print(tr)
    print(
        f"{pid} tier={tier} seed={seed} cases={len(specs)} ok={n_ok} lost={len(lost)} "
        f"nontrivial_distinct={len(digests)} violations={len(unknown)} known={sum(len(v) for v in known_seen.values())} "
        f"wall={ev['wall_s']}s"
    )
    if a.v:
        print(json.dumps(cov_out, indent=1, default=str)[:6000])
    if unknown:
        return 1
    if incon:
        for r in incon:
            print(f"INCONCLUSIVE property={pid} reason={r}")
        return 2
    return 0
