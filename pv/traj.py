"""Trajectory runner for paired-run differential monitors (C03, C04, C06, C20).

`python -m pv.traj <spec.json>` runs one trajectory in a fresh interpreter and prints one JSON object:
    {"steps": [[episode, t, obs_digest, reward, {agent: [action, params, status, data]}], ...], "sha": ..., "diag": {...}}
`run(spec)` does the same in-process. spec keys:
    src          [kind, name] as in envrun.scenario_source, or {"cfg": dict}
    seed         reset seed (episode e uses seed + e unless "same_seed_each_episode")
    actions      list (per episode) of action-index lists
    arm          {"clock": None|"fixed0"|"jumps", "entropy": None|int, "logging": bool}
    keep_obs     include the full normalised observation (for witnesses) instead of a digest only
"""
from __future__ import annotations

import copy
import hashlib
import json
import os
import sys


def _jsonable(x):
    import numpy as np

    if isinstance(x, dict):
        return {str(k): _jsonable(v) for k, v in x.items()}
    if isinstance(x, (list, tuple)):
        return [_jsonable(v) for v in x]
    if isinstance(x, np.ndarray):
        return x.tolist()
    if isinstance(x, (np.integer,)):
        return int(x)
    if isinstance(x, (np.floating,)):
        return float(x)
    if isinstance(x, (str, int, float, bool)) or x is None:
        return x
    if isinstance(x, (set, frozenset)):
        return sorted((_jsonable(v) for v in x), key=str)
    return str(x)


def install_arm(arm):
    """fault-injection arms: adversarial clock / different entropy stream. Returns description."""
    import datetime as _dt
    import random as _random

    done = {}
    clock = (arm or {}).get("clock")
    if clock:
        real = _dt.datetime

        class FakeDT(real):
            _n = 0

            @classmethod
            def now(cls, tz=None):
                if clock == "fixed0":
                    return real(2031, 1, 1, 0, 0, 0, 0)
                FakeDT._n += 1
                base = real(2029, 6, 1, 12, 0, 0, 0)
                return base + _dt.timedelta(days=37 * FakeDT._n, microseconds=(FakeDT._n * 7919) % 2 * 123456)

        import primaite.simulator.network.transmission.data_link_layer as dll
        import primaite.simulator.system.services.terminal.terminal as term
        import primaite.simulator.system.software as sw

        for mod in (dll, term, sw):
            if hasattr(mod, "datetime"):
                setattr(mod, "datetime", FakeDT)
        done["clock"] = clock
    ent = (arm or {}).get("entropy")
    if ent is not None:
        import uuid as _uuid

        r = _random.Random(ent)

        def fake_uuid4():
            return _uuid.UUID(int=r.getrandbits(128), version=4)

        import secrets as _secrets

        _secrets.randbits = lambda k: r.getrandbits(k)
        patched = 0
        for name, mod in list(sys.modules.items()):
            if name.startswith("primaite") and getattr(mod, "uuid4", None) is _uuid.uuid4:
                mod.uuid4 = fake_uuid4
                patched += 1
        done["entropy"] = {"seed": ent, "modules_patched": patched}
    return done


def run(spec):
    from . import boot

    arm = spec.get("arm") or {}
    boot.boot(logging_on=bool(arm.get("logging")))
    from . import corpus, envdrv, envrun, snap

    src = spec["src"]
    if isinstance(src, dict):
        cfg, meta = copy.deepcopy(src["cfg"]), {}
    else:
        cfg, meta = envrun.scenario_source(src[0], src[1])
    if isinstance(cfg, dict):
        if arm.get("logging"):
            cfg["io_settings"] = {"save_agent_actions": True, "save_step_metadata": True, "save_pcap_logs": True, "save_sys_logs": True,
                                  "save_agent_logs": True, "write_sys_log_to_terminal": False, "write_agent_log_to_terminal": False,
                                  "sys_log_level": "DEBUG", "agent_log_level": "DEBUG"}
        if spec.get("max_len"):
            cfg["game"]["max_episode_length"] = spec["max_len"]
        if spec.get("game_seed") is not None:
            cfg["game"]["seed"] = spec["game_seed"]
    import primaite.session.environment  # noqa: F401  (import everything before patching module-level names)
    import primaite.game.agent.scripted_agents  # noqa: F401

    diag = {"arm": install_arm(arm)}
    env = envdrv.make_env(cfg) if isinstance(cfg, dict) else envrun._env_from_path(cfg)
    norm = snap.Normaliser()
    steps = []
    h = hashlib.sha256()
    first_resets = spec.get("pre_resets", 0)
    for _ in range(first_resets):
        env.reset(seed=spec["seed"])
    sens = {"nmap_scans": 0, "prob_agent_steps": 0, "tap_stages": set()}
    for ep, acts in enumerate(spec["actions"]):
        seed = spec["seed"] if spec.get("same_seed_each_episode") else spec["seed"] + ep
        if spec.get("same_seed_each_episode") or spec.get("norm_per_episode"):
            norm = snap.Normaliser()  # episodes are compared with each other: number opaque ids per episode
        obs, info = env.reset(seed=seed if spec.get("reset_seed", True) else None)
        rec = [ep, -1, _digest_obs(obs), None, {}]
        if spec.get("keep_obs"):
            rec.append(_jsonable(env.agent.observation_manager.current_observation))
        if spec.get("keep_state"):  # whole normalised simulator state (API state + caches/tables), compared like the observation
            rec[4] = {"<simulation-state>": norm.s(_jsonable(snap.full(env.game.simulation)))}
        steps.append(rec)
        h.update(json.dumps(rec[:5], sort_keys=True).encode())
        for t, a in enumerate(acts):
            n = env.action_space.n
            obs, rew, term, trunc, info = env.step(a % n)
            per = {}
            for name, ag in env.game.agents.items():
                it = ag.history[-1]
                data = norm.s(_jsonable(it.response.data))
                per[name] = [it.action, norm.s(_jsonable(it.parameters)), it.response.status, data]
                if it.action.startswith("node-nmap") or it.action == "node-network-service-recon":
                    sens["nmap_scans"] += 1
                if ag.__class__.__name__ == "ProbabilisticAgent":
                    sens["prob_agent_steps"] += 1
                st = getattr(ag, "current_kill_chain_stage", None)
                if st is not None:
                    sens["tap_stages"].add(getattr(st, "name", str(st)))
            if spec.get("keep_state"):
                per["<simulation-state>"] = norm.s(_jsonable(snap.full(env.game.simulation)))
            rec = [ep, t, _digest_obs(obs), float(rew), per]
            if spec.get("keep_obs"):
                rec.append(_jsonable(env.agent.observation_manager.current_observation))
            steps.append(rec)
            h.update(json.dumps(rec[:5], sort_keys=True).encode())
    try:
        env.close()
    except Exception:
        pass
    sens["tap_stages"] = sorted(sens["tap_stages"])
    diag["sensitive"] = sens
    return {"steps": steps, "sha": h.hexdigest(), "diag": diag}


def _digest_obs(obs):
    return hashlib.sha256(json.dumps(_jsonable(obs), sort_keys=True).encode()).hexdigest()[:20]


def first_divergence(a, b):
    """a, b: step lists -> None | (index, episode, t, what, detail)"""
    for i, (x, y) in enumerate(zip(a, b)):
        if x[:5] == y[:5]:
            continue
        ep, t = x[0], x[1]
        if x[2] != y[2]:
            detail = None
            if len(x) > 5 and len(y) > 5:
                from .snap import first_diff

                detail = first_diff(x[5], y[5])
            return i, ep, t, "observation", detail
        if x[3] != y[3]:
            return i, ep, t, "reward", (x[3], y[3])
        for name in x[4]:
            if x[4][name] != y[4].get(name):
                if name == "<simulation-state>":
                    from .snap import first_diff

                    return i, ep, t, "simulation-state", first_diff(x[4][name], y[4].get(name))
                return i, ep, t, f"agent-history:{name}", (x[4][name], y[4].get(name))
        return i, ep, t, "record", None
    if len(a) != len(b):
        return min(len(a), len(b)), None, None, "length", (len(a), len(b))
    return None


def run_child(spec, hashseed=0, timeout=1800):
    """run the trajectory in a fresh interpreter with the given PYTHONHASHSEED"""
    import subprocess
    import tempfile

    from . import boot

    env = dict(os.environ)
    env["PYTHONHASHSEED"] = str(hashseed)
    env["PYTHONPATH"] = boot.VERIF + os.pathsep + env.get("PYTHONPATH", "")
    env["PYTHONDONTWRITEBYTECODE"] = "1"
    import pickle

    with tempfile.NamedTemporaryFile("wb", suffix=".pkl", delete=False) as f:
        pickle.dump(spec, f)  # pickle, not JSON: scenario dicts have integer mapping keys
        path = f.name
    try:
        p = subprocess.run([boot.VENV_PY, "-m", "pv.traj", path], cwd=boot.VERIF, env=env, capture_output=True, text=True, timeout=timeout)
    finally:
        os.unlink(path)
    for line in reversed(p.stdout.splitlines()):
        if line.startswith("@@TRAJ "):
            return json.loads(line[7:])
    return {"error": (p.stderr or p.stdout)[-3000:], "returncode": p.returncode}


if __name__ == "__main__":
    import pickle

    spec = pickle.load(open(sys.argv[1], "rb"))
    try:
        out = run(spec)
    except BaseException as e:  # noqa
        import traceback

        out = {"error": f"{type(e).__name__}: {e}", "trace": traceback.format_exc()[-3000:]}
    sys.stdout.write("@@TRAJ " + json.dumps(out, default=str) + "\n")
    sys.stdout.flush()
