"""Reference reward calculator (C10): per component type a small function of
   (post-step simulator OBJECTS read directly, the agent's latest history item, the component's previous value),
following docs/source/rewards.rst and the component docstrings. Never reads describe_state()."""
from __future__ import annotations

import math


def _node(game, hostname):
    try:
        return game.simulation.network.get_node_by_hostname(hostname)
    except Exception:
        return None


class RefComponent:
    def __init__(self, ctype, opts, weight):
        self.ctype, self.opts, self.weight = ctype, opts, weight
        self.prev = 0.0  # last value (sticky memory)

    def calc(self, game, agent_name, item, shared_values):
        t, o = self.ctype, self.opts
        if t == "dummy":
            v = 0.0
        elif t == "database-file-integrity":
            v = 0.0
            node = _node(game, o["node_hostname"])
            if node is not None:
                folder = node.file_system.get_folder(o["folder_name"])
                f = folder.get_file(o["file_name"]) if folder else None
                if f is not None:
                    hv = f.health_status.value
                    v = -1.0 if hv == 2 else 1.0 if hv == 1 else 0.0
        elif t == "web-server-404-penalty":
            node = _node(game, o["node_hostname"])
            svc = None
            if node is not None:
                svc = node.software_manager.software.get(o["service_name"])
            if svc is None:
                return 0.0  # (does not touch memory)
            codes = [c.value for c in getattr(svc, "response_codes_this_timestep", [])]
            if codes:
                v = sum(1.0 if c == 200 else -1.0 if c == 404 else 0.0 for c in codes) / len(codes)
                self.seen_code_sets = getattr(self, "seen_code_sets", set()) | {tuple(sorted(set(codes)))}
                if v == 0.0 and self.prev != 0.0:
                    self.zero_average_over_memory = getattr(self, "zero_average_over_memory", 0) + 1
            elif not o.get("sticky", True):
                v = 0.0
            else:
                v = self.prev
        elif t == "webpage-unavailable-penalty":
            host = o.get("node_hostname", "")
            attempted = list(item.request) == ["network", "node", host, "application", "web-browser", "execute"]
            node = _node(game, host)
            browser = None
            if node is not None:
                browser = node.software_manager.software.get("web-browser")
            if not attempted:
                if o.get("sticky", True):
                    v = self.prev if browser is not None else 0.0
                else:
                    v = 0.0
            else:
                if item.response.status != "success":
                    v = -1.0
                elif browser is None or not browser.history:
                    v = 0.0
                else:
                    h = browser.history[-1]
                    outcome = h.response_code.value if h.status.value == "LOADED" else h.status.value
                    v = 0.0 if outcome == "PENDING" else 1.0 if outcome == 200 else -1.0
        elif t == "green-admin-database-unreachable-penalty":
            host = o["node_hostname"]
            attempted = list(item.request) == ["network", "node", host, "application", "database-client", "execute"]
            if attempted:
                v = 1.0 if item.response.status == "success" else -1.0
            elif not o.get("sticky", True):
                v = 0.0
            else:
                v = self.prev
        elif t == "shared-reward":
            v = shared_values[o["agent_name"]]
            return v  # no memory
        elif t == "action-penalty":
            v = o.get("do_nothing_penalty", 0.0) if item.action == "do-nothing" else o.get("action_penalty", -1.0)
            return v
        else:
            raise KeyError(f"reference has no model for reward component {t}")
        self.prev = v
        return v


class RefRewards:
    """Reference for all agents of one game. agents_cfg: list of agent config dicts (as in the scenario)."""

    def __init__(self, agents_cfg):
        self.comps = {}
        self.deps = {}
        self.total = {}
        for a in agents_cfg:
            name = a["ref"]
            cs = []
            for c in (a.get("reward_function") or {}).get("reward_components", []):
                cs.append(RefComponent(c["type"], dict(c.get("options") or {}), c.get("weight", 1.0)))
            self.comps[name] = cs
            self.deps[name] = [c.opts["agent_name"] for c in cs if c.ctype == "shared-reward"]
            self.total[name] = 0.0
        self.order = self._toposort()

    def _toposort(self):
        # Kahn on "dependency -> dependant"
        indeg = {n: 0 for n in self.comps}
        for n, ds in self.deps.items():
            for d in set(ds):
                indeg[n] += 1
        order, ready = [], [n for n in self.comps if indeg[n] == 0]
        while ready:
            n = ready.pop(0)
            order.append(n)
            for m, ds in self.deps.items():
                if n in set(ds):
                    indeg[m] -= 1
                    if indeg[m] == 0:
                        ready.append(m)
        if len(order) != len(self.comps):
            raise ValueError("cyclic")
        return order

    def step(self, game, real_now=None):
        """-> {agent: (reward, [component values])} for the step just taken (agents' history[-1] is this step's).
        real_now: the agents' real current rewards of this step; if given, a shared component is expected to equal the
        OTHER agent's real same-step reward (so one wrong component does not cascade through sharing)."""
        vals, out = {}, {}
        for name in self.order:
            agent = game.agents[name]
            item = agent.history[-1]
            total = 0.0
            cv = []
            for c in self.comps[name]:
                v = c.calc(game, name, item, real_now if real_now is not None else vals)
                cv.append(v)
                total += c.weight * v
            vals[name] = total
            out[name] = (total, cv)
            self.total[name] += total
        return out


def has_cycle(graph):
    """Kahn: graph maps node -> iterable of nodes it depends on (may mention nodes that are not keys)."""
    nodes = set(graph)
    for vs in graph.values():
        nodes |= set(vs)
    indeg = {n: 0 for n in nodes}
    for n, vs in graph.items():
        for v in set(vs):
            indeg[n] += 1  # n waits for v
    ready = [n for n in nodes if indeg[n] == 0]
    seen = 0
    while ready:
        x = ready.pop()
        seen += 1
        for n, vs in graph.items():
            if x in set(vs):
                indeg[n] -= 1
                if indeg[n] == 0:
                    ready.append(n)
    return seen != len(nodes)


def close(a, b):
    return a == b or (isinstance(a, (int, float)) and isinstance(b, (int, float)) and math.isclose(a, b, rel_tol=1e-12, abs_tol=1e-12))
