"""Independent dry-run of the request dispatcher (C05/C11): walk the live request tree along a request, at each level
check key presence and evaluate that level's validator object, without calling any handler."""
from __future__ import annotations


def dry_run(root_rm, request, context=None):
    """-> dict(refused: bool, why: 'key-miss'|'validator'|'handler'|'malformed', depth: int, validator: str|None)"""
    from primaite.simulator.core import RequestManager

    cur = root_rm
    i = 0
    ctx = context if context is not None else {}
    while True:
        if i >= len(request):
            # the path ends at a manager: nothing is addressed here
            return {"refused": True, "why": "key-miss", "depth": i, "validator": None}
        key = request[i]
        present = isinstance(key, (str, int)) and key in cur.request_types
        if not present:
            return {"refused": True, "why": "key-miss", "depth": i, "validator": None}
        rt = cur.request_types[key]
        try:
            ok = rt.validator(request[i + 1:], ctx)
        except Exception as e:
            return {"refused": True, "why": "validator-raises", "depth": i, "validator": f"{type(rt.validator).__name__}:{type(e).__name__}"}
        if not ok:
            return {"refused": True, "why": "validator", "depth": i, "validator": type(rt.validator).__name__,
                    "level": "intermediate" if isinstance(rt.func, RequestManager) or getattr(rt.func, "__name__", "") == "apply_request" else "leaf"}
        if isinstance(rt.func, RequestManager):
            cur = rt.func
            i += 1
            continue
        owner = getattr(rt.func, "__self__", None)
        if owner is not None and getattr(rt.func, "__name__", "") == "apply_request" and isinstance(getattr(owner, "_request_manager", None), RequestManager):
            # delegation through a component's public entry point (SimComponent.apply_request) instead of its manager object: the
            # real dispatcher ends up in the same manager, so the walk continues there
            cur = owner._request_manager
            i += 1
            continue
        return {"refused": False, "why": "handler", "depth": i, "validator": None}
