"""Independent reachability model over the SCENARIO DICT (not the built objects) - used by C06 and C08.

hosts send to on-link destinations directly, else to their default gateway; routers forward by longest-prefix match
(lowest metric on ties, default route last) to next hops; ACL reference model (pv.models.acl_ref) at each router and at
each firewall zone; link / interface / power state. Verdicts are three-valued: ("delivered", node), ("dropped", reason)
or ("unjudged", reason) whenever the documentation does not determine the outcome (route ties, ARP through a filtering
firewall, ...).
"""
from __future__ import annotations

from ipaddress import IPv4Address, IPv4Network

from .acl_ref import RefACL

HOST_TYPES = ("computer", "server", "printer")
FW_LISTS = ("internal_inbound_acl", "internal_outbound_acl", "dmz_inbound_acl", "dmz_outbound_acl", "external_inbound_acl", "external_outbound_acl")
FW_IMPLICIT = {"internal_inbound_acl": "DENY", "internal_outbound_acl": "DENY", "dmz_inbound_acl": "DENY", "dmz_outbound_acl": "DENY",
               "external_inbound_acl": "PERMIT", "external_outbound_acl": "PERMIT"}


def _ip(x):
    return None if x is None else int(IPv4Address(str(x)))


def mk_acl(rules, implicit, defaults=False):
    from primaite.utils.validation.ip_protocol import PROTOCOL_LOOKUP
    from primaite.utils.validation.port import PORT_LOOKUP

    acl = RefACL(implicit)
    if defaults:
        acl.add(22, dict(action="PERMIT", protocol=None, src=None, srcw=None, dst=None, dstw=None, sport=219, dport=219))
        acl.add(23, dict(action="PERMIT", protocol="icmp", src=None, srcw=None, dst=None, dstw=None, sport=None, dport=None))
    for pos, r in (rules or {}).items():
        p = r.get("protocol")
        acl.add(int(pos), dict(action=r["action"], protocol=None if not p else PROTOCOL_LOOKUP.get(p, p), src=_ip(r.get("src_ip")),
                               srcw=_ip(r.get("src_wildcard_mask")), dst=_ip(r.get("dst_ip")), dstw=_ip(r.get("dst_wildcard_mask")),
                               sport=None if not r.get("src_port") else PORT_LOOKUP[r["src_port"]],
                               dport=None if not r.get("dst_port") else PORT_LOOKUP[r["dst_port"]]))
    return acl


class NetRef:
    def __init__(self, cfg):
        net = cfg["simulation"]["network"]
        self.nodes = {}
        for n in net["nodes"]:
            t = n["type"]
            d = {"type": t, "on": (n.get("operating_state") or "ON").upper() == "ON", "ifs": {}, "gw": None}
            if t in HOST_TYPES:
                d["ifs"][1] = {"ip": IPv4Address(n["ip_address"]), "net": IPv4Network(f"{n['ip_address']}/{n.get('subnet_mask', '255.255.255.0')}", strict=False), "up": True}
                for k, v in sorted((n.get("network_interfaces") or {}).items(), key=lambda kv: int(kv[0])):
                    d["ifs"][int(k)] = {"ip": IPv4Address(v["ip_address"]), "net": IPv4Network(f"{v['ip_address']}/{v['subnet_mask']}", strict=False), "up": True}
                d["gw"] = IPv4Address(n["default_gateway"]) if n.get("default_gateway") else None
            elif t == "router":
                for k, v in (n.get("ports") or {}).items():
                    d["ifs"][int(k)] = {"ip": IPv4Address(v["ip_address"]), "net": IPv4Network(f"{v['ip_address']}/{v.get('subnet_mask', '255.255.255.0')}", strict=False), "up": True}
                d["acl"] = mk_acl(n.get("acl"), "DENY", defaults=True)
            elif t == "firewall":
                for k, idx in (("external_port", 1), ("internal_port", 2), ("dmz_port", 3)):
                    v = (n.get("ports") or {}).get(k)
                    if v:
                        d["ifs"][idx] = {"ip": IPv4Address(v["ip_address"]), "net": IPv4Network(f"{v['ip_address']}/{v.get('subnet_mask', '255.255.255.0')}", strict=False), "up": True}
                d["acls"] = {ln: mk_acl((n.get("acl") or {}).get(ln), FW_IMPLICIT[ln]) for ln in FW_LISTS}
                d["acl"] = mk_acl(None, "DENY", defaults=True)  # the inherited router ACL is not consulted by Firewall.receive_frame
            elif t == "switch":
                d["ports"] = {i: True for i in range(1, int(n.get("num_ports", 8)) + 1)}
            if t in ("router", "firewall"):
                d["routes"] = [(IPv4Network(f"{r['address']}/{r.get('subnet_mask', '255.255.255.0')}", strict=False), IPv4Address(r["next_hop_ip_address"]),
                                float(r.get("metric", 0))) for r in (n.get("routes") or [])]
                dr = (n.get("default_route") or {}).get("next_hop_ip_address")
                d["default"] = IPv4Address(dr) if dr else None
            self.nodes[n["hostname"]] = d
        self.links = [((l["endpoint_a_hostname"], int(l["endpoint_a_port"])), (l["endpoint_b_hostname"], int(l["endpoint_b_port"]))) for l in net.get("links", [])]
        self.removed_links = set()

    # ---- mutable state
    def set_power(self, node, on):
        self.nodes[node]["on"] = on

    def set_if(self, node, port, up):
        n = self.nodes[node]
        if n["type"] == "switch":
            n["ports"][port] = up
        else:
            n["ifs"][port]["up"] = up

    def port_up(self, node, port):
        n = self.nodes[node]
        if not n["on"]:
            return False
        if n["type"] == "switch":
            return n["ports"].get(port, False)
        return port in n["ifs"] and n["ifs"][port]["up"]

    # ---- layer 2
    def segment(self, node, port):
        """all L3 endpoints (node, port) that share a broadcast domain with (node, port)"""
        seen, out = set(), set()
        stack = [(node, port)]
        while stack:
            ep = stack.pop()
            if ep in seen:
                continue
            seen.add(ep)
            if not self.port_up(*ep):
                continue
            for i, (a, b) in enumerate(self.links):
                if i in self.removed_links:
                    continue
                other = b if a == ep else a if b == ep else None
                if other is None or not self.port_up(*other):
                    continue
                on = self.nodes[other[0]]
                if on["type"] == "switch":
                    for p in on["ports"]:
                        if p != other[1]:
                            stack.append((other[0], p))
                    seen.add(other)
                else:
                    out.add(other)
                    seen.add(other)
        return out

    def owner_on_segment(self, node, port, ip):
        for (n2, p2) in self.segment(node, port):
            if self.nodes[n2]["ifs"][p2]["ip"] == ip:
                return n2, p2
        return None

    def owners(self, ip):
        return [(n, p) for n, d in self.nodes.items() for p, i in d.get("ifs", {}).items() if i["ip"] == ip]

    # ---- layer 3
    def best_route(self, node, dst):
        n = self.nodes[node]
        best, plen, metric, tie = None, -1, float("inf"), False
        for netw, nh, m in n.get("routes", []):
            if dst in netw:
                if netw.prefixlen > plen or (netw.prefixlen == plen and m < metric):
                    best, plen, metric, tie = nh, netw.prefixlen, m, False
                elif netw.prefixlen == plen and m == metric and nh != best:
                    tie = True
        if best is None:
            return n.get("default"), False
        return best, tie

    def walk(self, src, dst_ip, pkt_fields, ttl=64):
        """forward one IP packet (proto, sport, dport) from host `src` to dst_ip. -> (verdict, detail, hops)"""
        dst_ip = IPv4Address(str(dst_ip))
        proto, sport, dport = pkt_fields
        s = self.nodes[src]
        if not s["on"]:
            return "dropped", f"{src} is off", []
        src_if = None
        for p, i in s["ifs"].items():
            if i["up"] and dst_ip in i["net"]:
                src_if = p
                break
        target = dst_ip
        if src_if is None:
            if s["type"] in HOST_TYPES:
                if s["gw"] is None:
                    return "dropped", "no default gateway", []
                for p, i in s["ifs"].items():
                    if i["up"] and s["gw"] in i["net"]:
                        src_if = p
                        break
                if src_if is None:
                    return "dropped", "gateway not on an enabled interface", []
                target = s["gw"]
            else:
                return "unjudged", "router-originated traffic", []
        src_ip = s["ifs"][src_if]["ip"]
        pkt = (proto, int(src_ip), int(dst_ip), sport, dport)
        cur, cur_if = src, src_if
        hops = [src]
        for _ in range(40):
            nxt = self.owner_on_segment(cur, cur_if, target)
            if nxt is None:
                return "dropped", f"{target} not reachable on {cur}:{cur_if}'s segment", hops
            node, port = nxt
            n = self.nodes[node]
            hops.append(node)
            ttl -= 1  # every receiving interface decrements
            if ttl < 1:
                return "dropped", "ttl", hops
            if n["type"] in HOST_TYPES:
                if any(i["ip"] == dst_ip for i in n["ifs"].values()):
                    return "delivered", node, hops
                return "dropped", f"host {node} does not own {dst_ip}", hops
            # router / firewall
            if n["type"] == "router":
                ok, _ = n["acl"].verdict(pkt, count=False)
                if not ok:
                    return "dropped", f"acl@{node}", hops
            else:
                r = self._firewall(node, port, pkt, dst_ip)
                if r is not True:
                    return r[0], r[1], hops
            if any(i["ip"] == dst_ip for i in n["ifs"].values()):
                return "delivered", node, hops
            out_if = None
            for p, i in n["ifs"].items():
                if i["up"] and dst_ip in i["net"]:
                    out_if = p
                    break
            if out_if is not None:
                target = dst_ip
            else:
                nh, tie = self.best_route(node, dst_ip)
                if tie:
                    return "unjudged", f"route tie at {node}", hops
                if nh is None:
                    return "dropped", f"no route at {node}", hops
                for p, i in n["ifs"].items():
                    if i["up"] and nh in i["net"]:
                        out_if = p
                        break
                if out_if is None:
                    return "dropped", f"next hop {nh} not on a connected enabled interface of {node}", hops
                target = nh
            ttl -= 1  # forwarding decrements too
            if ttl < 1:
                return "dropped", "ttl", hops
            cur, cur_if = node, out_if
        return "dropped", "loop", hops

    def _firewall(self, node, in_port, pkt, dst_ip):
        n = self.nodes[node]
        acls = n["acls"]

        def chk(name):
            ok, _ = acls[name].verdict(pkt, count=False)
            return ok

        own = any(i["ip"] == dst_ip for i in n["ifs"].values())
        dmz_net = n["ifs"][3]["net"] if 3 in n["ifs"] else None
        to_dmz = dmz_net is not None and dst_ip in dmz_net
        if in_port == 1:
            if not chk("external_inbound_acl"):
                return "dropped", f"acl@{node}:external_inbound"
            if own:
                return True
            return True if chk("dmz_inbound_acl" if to_dmz else "internal_inbound_acl") else ("dropped", f"acl@{node}:{'dmz' if to_dmz else 'internal'}_inbound")
        if in_port == 2:
            if not chk("internal_outbound_acl"):
                return "dropped", f"acl@{node}:internal_outbound"
            if own:
                return True
            return True if chk("dmz_inbound_acl" if to_dmz else "external_outbound_acl") else ("dropped", f"acl@{node}:{'dmz_inbound' if to_dmz else 'external_outbound'}")
        if in_port == 3:
            if not chk("dmz_outbound_acl"):
                return "dropped", f"acl@{node}:dmz_outbound"
            if own:
                return True
            # leaves through external or internal depending on where the destination lives
            for p, i in n["ifs"].items():
                if p != 3 and dst_ip in i["net"]:
                    name = "external_outbound_acl" if p == 1 else "internal_inbound_acl"
                    return True if chk(name) else ("dropped", f"acl@{node}:{name}")
            return "unjudged", "dmz outbound via route"
        return "unjudged", "unknown firewall port"

    def firewall_on_path(self, hops):
        return any(self.nodes[h]["type"] == "firewall" for h in hops)

    def exchange(self, a, b_ip, proto, port=None):
        """request a->b_ip and the reply back. -> ('success'|'fail'|'unjudged', detail)"""
        fields = (proto, port, port) if proto != "icmp" else ("icmp", None, None)
        v, d, hops = self.walk(a, b_ip, fields)
        if v == "unjudged":
            return "unjudged", d
        if v == "dropped":
            return "fail", f"request: {d}"
        dest = d
        if self.firewall_on_path(hops):
            fw_note = True
        else:
            fw_note = False
        src_ip = None
        sa = self.nodes[a]
        for p, i in sa["ifs"].items():
            if i["up"] and (IPv4Address(str(b_ip)) in i["net"] or (sa["gw"] is not None and sa["gw"] in i["net"])):
                src_ip = i["ip"]
                break
        if src_ip is None:
            return "unjudged", "source address"
        if self.nodes[dest]["type"] not in HOST_TYPES:
            # reply originates at a router/firewall interface: on-link or routed, not modelled
            return ("success" if len(hops) <= 2 and not fw_note else "unjudged"), "reply from network node"
        v2, d2, hops2 = self.walk(dest, src_ip, fields)
        if v2 == "unjudged":
            return "unjudged", d2
        if v2 == "dropped":
            return "fail", f"reply: {d2}"
        if fw_note or self.firewall_on_path(hops2):
            return "success-if-arp-permitted", "firewall on path"
        return "success", None
