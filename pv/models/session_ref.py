"""Reference session model for C16: the property statement as a small executable model.

Only what the statement says is modelled:

* a login (local or remote) may succeed ONLY with the current password of an existing, enabled account on a
  powered-on node and, for remote logins, while fewer than `limit` remote sessions are open;
* a remote session is *live* from a successful login until a logout, an inactivity time-out or a password change of
  its user; a command sent on a session that is not live must have no effect on the target;
* the last enabled administrator can never be disabled.

The model never predicts that something MUST succeed (the statement only gives necessary conditions); it answers
"may this succeed / take effect?" with three values: yes, no:<reason>, unjudged:<reason>.

Timing of the time-out is not fixed by the documentation, so the model keeps two clocks per session:

* `quiet_on`   ticks since the last command *sent* on the session, counting only ticks during which the target was
               powered on (largest defensible "still active" reading). Must be dead once quiet_on >= timeout + 2;
               may be dead or alive for timeout <= quiet_on <= timeout + 1.
* `quiet_all`  ticks since the last command that *took effect* (smallest defensible reading); the session is
               certainly still open (counts towards the limit) only while quiet_all <= timeout - 1.

Events the statement does not list (node power cycle on either end, terminal stop/start, a logoff the target could not
have heard of) never end a session here; they only mark it `disturbed`, which removes it from the set of sessions that
*certainly* count towards the limit.
"""
from __future__ import annotations

YES = "yes"


class RefUser:
    def __init__(self, name, password, admin=False):
        self.name = name
        self.password = password
        self.original_password = password
        self.admin = admin
        self.disabled = False
        self.uncertain = False  # the model lost track of this account (contradictory answers): do not judge its logins
        self.n_changes = 0


class RefSession:
    def __init__(self, ordinal, user, client, t):
        self.ordinal = ordinal
        self.user = user
        self.client = client
        self.t_login = t
        self.quiet_on = 0
        self.quiet_all = 0
        self.ended = None  # None | "logout" | "timeout" | "password-change"
        self.ended_detail = None
        self.heard = True  # for logout: could the target have been told?
        self.disturbed = False
        self.cmds_sent = 0
        self.cmds_effective = 0


class SessionRef:
    def __init__(self, limit=3, timeout=30, users=None):
        self.limit = limit
        self.timeout = timeout
        self.users = {"admin": RefUser("admin", "admin", True)}
        for u in users or []:
            self.users[u["username"]] = RefUser(u["username"], u["password"], bool(u.get("is_admin", False)))
        self.sessions = []
        self.t = 0
        self.local_user = None

    # ------------------------------------------------------------------ accounts
    def enabled_admins(self):
        return [u.name for u in self.users.values() if u.admin and not u.disabled]

    def on_add_user(self, name, password, admin, ok):
        """-> diagnostic string or None"""
        if not ok:
            return None
        if name in self.users:
            self.users[name].uncertain = True
            return "add-existing-user-succeeded"
        self.users[name] = RefUser(name, password, admin)
        return None

    def disable_verdict(self, name):
        """May a disable of `name` succeed? no:<reason> only for the last enabled admin."""
        u = self.users.get(name)
        if u is not None and not u.uncertain and u.admin and not u.disabled and self.enabled_admins() == [name]:
            return "no:last-enabled-admin"
        return YES

    def on_disable_user(self, name, ok):
        if ok and name in self.users:
            self.users[name].disabled = True

    def on_change_password(self, name, old, new, ok):
        """-> dict(ended=[ordinals], diag=str|None). A successful change ends every session of that user."""
        out = {"ended": [], "diag": None}
        if not ok:
            return out
        u = self.users.get(name)
        if u is None:
            out["diag"] = "change-password-unknown-user-succeeded"
            return out
        if not u.uncertain and u.password != old:
            out["diag"] = "change-password-wrong-old-succeeded"
        u.password = new
        u.n_changes += 1
        rank = 0
        for s in self.sessions:
            if s.user == name and s.ended is None:
                s.ended = "password-change"
                s.ended_detail = "first-session-of-user" if rank == 0 else "later-session-of-user"
                out["ended"].append(s.ordinal)
                rank += 1
        if self.local_user == name:
            self.local_user = None
        return out

    # ------------------------------------------------------------------ logins
    def credentials_verdict(self, name, password, node_on):
        if not node_on:
            return "no:node-off"
        u = self.users.get(name)
        if u is None:
            return "no:unknown-user"
        if u.uncertain:
            return "unjudged:account-uncertain"
        if u.disabled:
            return "no:disabled-user"
        if u.password != password:
            return "no:wrong-password"
        return YES

    def certainly_open(self):
        return [s for s in self.sessions if s.ended is None and not s.disturbed and s.quiet_all <= self.timeout - 1]

    def possibly_open(self):
        return [s for s in self.sessions if s.ended is None]

    def remote_login_verdict(self, name, password, node_on):
        v = self.credentials_verdict(name, password, node_on)
        if v != YES:
            return v
        if len(self.certainly_open()) >= self.limit:
            return "no:at-limit"
        return YES

    def local_login_verdict(self, name, password, node_on):
        return self.credentials_verdict(name, password, node_on)

    def on_remote_login_success(self, name, client):
        s = RefSession(len(self.sessions), name, client, self.t)
        self.sessions.append(s)
        return s.ordinal

    def on_local_login_success(self, name):
        self.local_user = name

    # ------------------------------------------------------------------ sessions
    def cmd_verdict(self, k, handle_active):
        """May a command sent now on session k take effect on the target?"""
        s = self.sessions[k]
        if s.ended == "logout":
            if not s.heard and not handle_active:
                # the client closed its end while the target was unreachable: the statement does not say how the target
                # should learn of it; a packet replayed on the closed handle is not judged
                return "unjudged:logout-not-heard-by-target"
            return "no:logout"
        if s.ended is not None:
            return f"no:{s.ended}"
        if s.quiet_on >= self.timeout + 2:
            return "no:timeout"
        if s.quiet_on >= self.timeout:
            return "unjudged:timeout-window"
        return YES

    def on_cmd_sent(self, k, effect):
        s = self.sessions[k]
        s.cmds_sent += 1
        if s.ended is None:
            s.quiet_on = 0
            if effect:
                s.quiet_all = 0
                s.cmds_effective += 1

    def on_logoff(self, k, heard):
        s = self.sessions[k]
        if s.ended is None:
            s.ended = "logout"
            s.ended_detail = "heard" if heard else "not-heard"
            s.heard = heard

    def on_logoff_failed(self, k):
        self.sessions[k].disturbed = True

    def on_tick(self, target_on):
        self.t += 1
        for s in self.sessions:
            if s.ended is not None:
                continue
            s.quiet_all += 1
            s.quiet_on += 1  # every tick counts, whatever the power state of the target: idle time is idle time (the real time-out
            # bookkeeping runs on a powered-off node as well; an earlier version of this model only counted powered-on ticks and so
            # could not see time-outs skipped while the target was down)
            if s.quiet_on >= self.timeout + 2:
                s.ended = "timeout"

    def on_disturb(self, client=None):
        """An event the statement does not list happened (power cycle, terminal stop/start...)."""
        for s in self.sessions:
            if s.ended is None and (client is None or s.client == client):
                s.disturbed = True

    # ------------------------------------------------------------------ coverage
    def state_class(self, subject=None):
        live = sum(1 for s in self.sessions if s.ended is None and s.quiet_on < self.timeout)
        window = sum(1 for s in self.sessions if s.ended is None and s.quiet_on >= self.timeout)
        dead = sum(1 for s in self.sessions if s.ended is not None)
        c = f"live{min(live, 3)}{'+' if live > 3 else ''}/win{min(window, 1)}/dead{min(dead, 2)}"
        if len(self.certainly_open()) >= self.limit:
            c += "/LIM"
        if subject is not None and subject in self.users:
            u = self.users[subject]
            c += "/" + ("dis" if u.disabled else "en") + ("/chg" if u.n_changes else "")
        return c
