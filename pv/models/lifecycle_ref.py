"""Reference lifecycle state machines for services and applications (C13).

Sources: docs/source/action_masking.rst (table "Masking Logic": in which state each verb is accepted),
docs/source/simulation_components/system/software.rst (a service runs right after install, stops when its node is
powered off, is turned back on when the node is powered on), Service/Application operating-state enumerations.

The model is stepped by the same events as the simulator and is compared with the simulator OBJECTS
(`node.software_manager.software[name].operating_state`) by the check.  What the documentation leaves open is modelled as
"not judged" (expected is None / several acceptable states), never guessed.

Timing (README-checks item 7): the tick at which restart / install complete is not documented to the tick.  The model
takes an `offset` in {0, 1} per mechanism, calibrated by the check on an undisturbed straight-line run: completion is
expected on tick k(d) = max(1, d + offset) after the request, for every d and every history.
"""
from __future__ import annotations

R, S, P, D, RS, I, C = "RUNNING", "STOPPED", "PAUSED", "DISABLED", "RESTARTING", "INSTALLING", "CLOSED"

SERVICE, APPLICATION = "service", "application"

# ---- accepted source states (action-masking table); None = any state (node on)
SERVICE_ACCEPT = {"scan": {R}, "stop": {R}, "start": {S}, "pause": {R}, "resume": {P}, "restart": {R}, "disable": None,
                  "enable": {D}, "fix": {R}}
APPLICATION_ACCEPT = {"scan": {R}, "close": {R}, "fix": {R}, "execute": None, "install": None, "uninstall": None}

# ---- transition relation: verb -> {source: destination}
SERVICE_EDGE = {"start": {S: R}, "stop": {R: S}, "pause": {R: P}, "resume": {P: R}, "restart": {R: RS}, "enable": {D: S},
                "disable": {R: D, S: D, P: D, D: D, RS: D, I: D}}
APPLICATION_EDGE = {"run": {C: R}, "close": {R: C}}
TIMER_DONE = {SERVICE: {RS: R}, APPLICATION: {I: R}}
POWER_DOWN = {SERVICE: {R: S, P: S}, APPLICATION: {R: C}}  # node shut down: running/paused services stop, running apps close
POWER_UP = {SERVICE: {S: R}, APPLICATION: {C: R}}  # node start-up: stopped services start, closed apps run
TIMED = {SERVICE: RS, APPLICATION: I}
NOT_JUDGED_VERBS = ("fix", "scan", "execute")  # the docs do not say what these do to the operating state

# every (old, new) pair that is an edge of the documented relation at all, per kind
ALL_EDGES = {
    SERVICE: {(a, b) for m in list(SERVICE_EDGE.values()) + [TIMER_DONE[SERVICE], POWER_DOWN[SERVICE], POWER_UP[SERVICE]]
              for a, b in m.items()},
    APPLICATION: {(a, b) for m in list(APPLICATION_EDGE.values()) + [TIMER_DONE[APPLICATION], POWER_DOWN[APPLICATION],
                                                                     POWER_UP[APPLICATION], {C: I}] for a, b in m.items()},
}


def allowed_writes(kind, verb, is_target, power_edges=False):
    """Set of (old, new) operating-state writes the documented relation allows while event `verb` is in progress.

    `power_edges`: the node completes a power transition during this event (instant shutdown/startup request, or the
    tick on which a timed transition completes).  Returns None where the event is not judged edge by edge.
    """
    out = set()
    if verb == "tick":
        out |= set(TIMER_DONE[kind].items())
    if power_edges:
        out |= set(POWER_DOWN[kind].items()) | set(POWER_UP[kind].items())
    if verb == "shutdown":
        out |= set(POWER_DOWN[kind].items())
    if verb == "startup":
        out |= set(POWER_UP[kind].items())
    if is_target:
        if verb in NOT_JUDGED_VERBS or verb in ("install", "uninstall", "sm_uninstall"):
            return None
        edge = (SERVICE_EDGE if kind == SERVICE else APPLICATION_EDGE).get(verb)
        if edge:
            out |= set(edge.items())
    return out


class Timing:
    """k(d): the tick (counted in apply_timestep calls after the request) on which a timed transition completes."""

    def __init__(self, offset):
        assert offset in (0, 1)
        self.offset = offset

    def k(self, d):
        return max(1, int(d) + self.offset)

    @staticmethod
    def offset_from_observation(d, k_observed):
        """-> offset in {0,1} or None when the observation is outside the documented window {d, d+1} (d>=1)."""
        if k_observed is None or d < 1:
            return None
        off = k_observed - d
        return off if off in (0, 1) else None


class RefPower:
    """Node power (documented convention: completes on the (d+1)-th tick; d == 0: at once)."""

    def __init__(self, d_on, d_off, state="ON"):
        self.d_on, self.d_off, self.state, self.left = d_on, d_off, state, 0

    def request(self, ev):
        """-> (accepted, completed_now)"""
        if ev == "startup":
            if self.state != "OFF":
                return False, None
            if self.d_on <= 0:
                self.state = "ON"
                return True, "up"
            self.state, self.left = "BOOTING", self.d_on + 1
            return True, None
        if ev == "shutdown":
            if self.state != "ON":
                return False, None
            if self.d_off <= 0:
                self.state = "OFF"
                return True, "down"
            self.state, self.left = "SHUTTING_DOWN", self.d_off + 1
            return True, None
        raise ValueError(ev)

    def transitional(self):
        return self.state in ("BOOTING", "SHUTTING_DOWN")

    def tick(self):
        """-> 'up' / 'down' when a transition completes on this tick"""
        if self.transitional():
            self.left -= 1
            if self.left == 0:
                if self.state == "BOOTING":
                    self.state = "ON"
                    return "up"
                self.state = "OFF"
                return "down"
        return None


class RefSoftware:
    """One service or application on the node under test."""

    def __init__(self, name, kind, state, timing, present=True):
        self.name, self.kind, self.state, self.timing, self.present = name, kind, state, timing, present
        self.elapsed = None  # ticks since the restart/install request
        self.due = None  # tick on which completion is expected
        self.free = False  # timer disturbed by a node power event: completion tick not judged (docs silent)
        self.loose = False  # state after a not-judged event: adopt what is observed if it is an edge of the relation

    # ---- what the check may observe
    def acceptable(self):
        """set of operating states the documentation allows right now"""
        if not self.present:
            return set()
        if self.free and self.state == TIMED[self.kind]:
            return {self.state, R, S if self.kind == SERVICE else C}
        return {self.state}

    def adopt(self, real):
        if real != self.state:
            self.state = real
            if real != TIMED[self.kind]:
                self.elapsed = self.due = None
                self.free = False

    # ---- events
    def _arm(self, d):
        self.elapsed, self.due, self.free = 0, self.timing.k(d), False

    def request(self, verb, node_on, duration=None, health=None):
        """-> expected answer: True (must be success), False (must be refused), None (not judged)."""
        if not node_on:
            return False
        if self.kind == SERVICE:
            acc = SERVICE_ACCEPT[verb]
            if not self.present:
                return False
            if acc is not None and self.state not in acc:
                return False
            if verb == "fix":
                # accepted state; whether the fix itself can be applied depends on the health state (not lifecycle)
                return True if health in ("GOOD", "COMPROMISED") else None
            if verb == "scan":
                return True
            self.state = SERVICE_EDGE[verb][self.state]
            if verb == "restart":
                self._arm(duration)
            else:
                self.elapsed = self.due = None
            return True
        # application
        if verb == "install":
            if not self.present:
                self.present, self.state = True, I
                self._arm(duration)
            return True  # "already installed" is answered success as well (node on)
        if verb == "uninstall":
            if not self.present:
                return None  # removing what is not installed: docs silent on the answer
            self.present, self.elapsed, self.due = False, None, None
            return True
        if not self.present:
            return False
        acc = APPLICATION_ACCEPT[verb]
        if acc is not None and self.state not in acc:
            return False
        if verb == "execute":
            return None
        if verb == "fix":
            return True if health in ("GOOD", "COMPROMISED") else None
        if verb == "scan":
            return True
        if verb == "close":
            self.state = C
            return True
        raise ValueError(verb)

    def run(self, node_on):
        """Application.run() (no request exists for it): CLOSED -> RUNNING on a node that is on."""
        if self.present and self.kind == APPLICATION and node_on and self.state == C:
            self.state = R

    def tick(self, node_on):
        """-> True when the model completes a judged restart/install on this tick"""
        if not self.present or self.state != TIMED[self.kind] or self.elapsed is None:
            return False
        if not node_on:
            self.free = True
            return False
        self.elapsed += 1
        if not self.free and self.elapsed == self.due:
            self.state = R
            self.elapsed = self.due = None
            return True
        return False

    def power(self, direction):
        """node completed shutdown ('down') or start-up ('up')"""
        if not self.present:
            return
        if self.state == TIMED[self.kind]:
            self.free = True  # what a node power cycle does to a restart/install in progress is not documented
            return
        table = POWER_DOWN if direction == "down" else POWER_UP
        self.state = table[self.kind].get(self.state, self.state)

    def power_requested(self):
        if self.present and self.state == TIMED[self.kind]:
            self.free = True
