"""Independent observation encoder (C09): walks the agent's observation CONFIG and, for every leaf, fetches the source
quantity from the live simulator OBJECTS (never describe_state) and encodes it per the documentation
(docs/source/configuration/agents + enum definitions). Returns the expected nested observation with the same keys as the
real one; leaves the docs do not define are returned as the sentinel SKIP."""
from __future__ import annotations

SKIP = "<not judged>"


def _band(count, thr):
    lo, med, hi = thr
    return 3 if count > hi else 2 if count > med else 1 if count > lo else 0


def thresholds(th, key, default=(0, 5, 10)):
    t = (th or {}).get(key)
    if not t:
        return default
    return (t["low"], t["medium"], t["high"])


class ObsRef:
    def __init__(self, game, agent_cfg, game_thresholds):
        self.game = game
        self.net = game.simulation.network
        self.th = game_thresholds or {}
        self.cfg = agent_cfg.get("observation_space") or {"type": "none"}
        self.nmne_last = {}  # (host, nic) -> (in, out) cumulative counts at the previous observation

    # ------------------------------------------------------------------ entry
    def expected(self):
        return self._component(self.cfg["type"], self.cfg.get("options") or {})

    def _component(self, typ, o):
        if typ == "custom":
            return {c["label"]: self._component(c["type"], c.get("options") or {}) for c in o.get("components", [])}
        if typ == "none":
            return 0
        if typ == "nodes":
            return self._nodes(o)
        if typ == "links":
            return {i + 1: self._link(ref) for i, ref in enumerate(o["link_references"])}
        return SKIP

    # ------------------------------------------------------------------ nodes
    def _nodes(self, o):
        out = {}
        for i, h in enumerate(o.get("hosts", [])):
            out[f"HOST{i}"] = self._host(h, o)
        for i, r in enumerate(o.get("routers", [])):
            out[f"ROUTER{i}"] = self._router(r, o)
        for i, f in enumerate(o.get("firewalls", [])):
            out[f"FIREWALL{i}"] = self._firewall(f, o)
        return out

    def _inh(self, h, o, key, default=None):
        v = h.get(key)
        return o.get(key, default) if v is None else v

    def _host(self, h, o):
        node = self.net.get_node_by_hostname(h["hostname"])
        n_s, n_a = self._inh(h, o, "num_services"), self._inh(h, o, "num_applications")
        n_fo, n_fi, n_n = self._inh(h, o, "num_folders"), self._inh(h, o, "num_files"), self._inh(h, o, "num_nics")
        inc_nmne = self._inh(h, o, "include_nmne")
        mon = self._inh(h, o, "monitored_traffic")
        inc_acc = self._inh(h, o, "include_num_access")
        rs_f, rs_s, rs_a = self._inh(h, o, "file_system_requires_scan", True), self._inh(h, o, "services_requires_scan", True), self._inh(h, o, "applications_requires_scan", True)
        # quirk mirrored, not judged: the host schema defaults include_users to True, so the nodes-level option never reaches hosts
        inc_users = h.get("include_users", True)
        on = node is not None and node.operating_state.name == "ON"
        live = on  # components of a node that is not ON (or does not exist) read as default
        obs = {"operating_status": 0 if node is None else node.operating_state.value}
        svcs = (h.get("services") or [])[:n_s]
        if n_s:
            d = {}
            for i in range(n_s):
                name = svcs[i]["service_name"] if i < len(svcs) else None
                d[i + 1] = self._service(node, name, rs_s) if live and name else {"operating_status": 0, "health_status": 0}
            obs["SERVICES"] = d
        apps = (h.get("applications") or [])[:n_a]
        if n_a:
            d = {}
            for i in range(n_a):
                name = apps[i]["application_name"] if i < len(apps) else None
                d[i + 1] = self._app(node, name, rs_a) if live and name else {"operating_status": 0, "health_status": 0, "num_executions": 0}
            obs["APPLICATIONS"] = d
        fols = (h.get("folders") or [])[:n_fo]
        if n_fo:
            d = {}
            for i in range(n_fo):
                fc = fols[i] if i < len(fols) else None
                d[i + 1] = self._folder(node if live else None, fc, n_fi, inc_acc, rs_f)
            obs["FOLDERS"] = d
        if n_n:
            nics_cfg = h.get("network_interfaces") or []
            d = {}
            for i in range(n_n):
                num = nics_cfg[i]["nic_num"] if i < len(nics_cfg) else i + 1
                d[i + 1] = self._nic(node if live else None, h["hostname"], num, inc_nmne, mon)
            obs["NICS"] = d
        if inc_acc:
            if live:
                obs["num_file_creations"] = SKIP  # encoding of the raw count is not documented (space bound only: C02)
                obs["num_file_deletions"] = SKIP
            else:
                obs["num_file_creations"] = 0
                obs["num_file_deletions"] = 0
        if inc_users:
            if live:
                usm = node.software_manager.software.get("user-session-manager")
                obs["users"] = {"local_login": 1 if (usm and usm.local_session) else 0,
                                "remote_sessions": min(3, len(usm.remote_sessions)) if usm else 0}
            else:
                obs["users"] = {"local_login": 0, "remote_sessions": 0}
        return obs

    def _service(self, node, name, requires_scan):
        s = node.software_manager.software.get(name)
        if s is None or not hasattr(s, "restart_duration"):
            return {"operating_status": 0, "health_status": 0}
        op = s.operating_state.value
        if hasattr(s, "_active") and s.operating_state.name == "RUNNING" and not s._active:
            op = 2  # FTP services deliberately report STOPPED unless they transmitted data this timestep (ftp_service.py)
        return {"operating_status": op,
                "health_status": (s.health_state_visible if requires_scan else s.health_state_actual).value}

    def _app(self, node, name, requires_scan):
        a = node.software_manager.software.get(name)
        if a is None or not hasattr(a, "install_duration"):
            return {"operating_status": 0, "health_status": 0, "num_executions": 0}
        return {"operating_status": a.operating_state.value,
                "health_status": (a.health_state_visible if requires_scan else a.health_state_actual).value,
                "num_executions": _band(a.num_executions, thresholds(self.th, "app_executions"))}

    def _folder(self, node, fc, n_files, inc_acc, requires_scan):
        files_cfg = ((fc or {}).get("files") or [])[: n_files or 0]
        folder = node.file_system.get_folder(fc["folder_name"]) if (node is not None and fc) else None
        obs = {"health_status": 0}
        if folder is not None:
            obs["health_status"] = (folder.visible_health_status if requires_scan else folder.health_status).value
        if n_files:
            d = {}
            for i in range(n_files):
                name = files_cfg[i]["file_name"] if i < len(files_cfg) else None
                f = folder.get_file(name) if (folder is not None and name) else None
                e = {"health_status": 0}
                if inc_acc:
                    e["num_access"] = 0
                if f is not None:
                    e["health_status"] = (f.visible_health_status if requires_scan else f.health_status).value
                    if inc_acc:
                        e["num_access"] = _band(f.num_access, thresholds(self.th, "file_access"))
                d[i + 1] = e
            obs["FILES"] = d
        return obs

    def _traffic_band(self, value, speed):
        if value == 0:
            return 0
        return min(10, int(value / speed * 9) + 1)

    def _nic(self, node, hostname, num, inc_nmne, mon):
        nic = node.network_interface.get(num) if node is not None else None
        obs = {"nic_status": 0 if nic is None else (1 if nic.enabled else 2)}
        if inc_nmne:
            obs["NMNE"] = {"inbound": 0, "outbound": 0}
            if nic is not None:
                capturing = bool(nic.nmne_config and nic.nmne_config.capture_nmne)
                if capturing:
                    d = nic.nmne.get("direction", {})
                    cin = d.get("inbound", {}).get("keywords", {}).get("*", 0)
                    cout = d.get("outbound", {}).get("keywords", {}).get("*", 0)
                    pin, pout = self.nmne_last.get((hostname, num), (0, 0))
                    th = thresholds(self.th, "nmne")
                    obs["NMNE"] = {"inbound": _band(cin - pin, th), "outbound": _band(cout - pout, th)}
                    self.nmne_last[(hostname, num)] = (cin, cout)
        if mon:
            t = {}
            for proto, ports in mon.items():
                p = str(proto).lower()
                if p == "icmp":
                    v = (nic.traffic.get("icmp") or {}) if nic is not None else {}
                    t["icmp"] = {"inbound": self._traffic_band(v.get("inbound", 0), nic.speed) if nic else 0,
                                 "outbound": self._traffic_band(v.get("outbound", 0), nic.speed) if nic else 0}
                else:
                    from primaite.utils.validation.port import PORT_LOOKUP

                    t[p] = {}
                    for port in ports:
                        pn = PORT_LOOKUP[port] if isinstance(port, str) else port
                        v = ((nic.traffic.get(p) or {}).get(pn) or {}) if nic is not None else {}
                        t[p][pn] = {"inbound": self._traffic_band(v.get("inbound", 0), nic.speed) if nic else 0,
                                    "outbound": self._traffic_band(v.get("outbound", 0), nic.speed) if nic else 0}
            obs["TRAFFIC"] = t
        return obs

    # ------------------------------------------------------------------ routers / firewalls
    def _acl(self, acl, o, num_rules):
        from primaite.utils.validation.ip_protocol import PROTOCOL_LOOKUP
        from primaite.utils.validation.port import PORT_LOOKUP

        ip_list = [str(x) for x in (o.get("ip_list") or [])]
        wc_list = [str(x) for x in (o.get("wildcard_list") or [])]
        port_list = [PORT_LOOKUP[p] if isinstance(p, str) else p for p in (o.get("port_list") or [])]
        proto_list = [PROTOCOL_LOOKUP.get(p, p) if isinstance(p, str) else p for p in (o.get("protocol_list") or [])]

        def idx(lst, v, unknown=SKIP):
            if v is None:
                return 1
            return lst.index(v) + 2 if v in lst else unknown

        out = {}
        for i in range(num_rules):
            r = acl.acl[i] if (acl is not None and i < len(acl.acl)) else None
            if r is None:
                out[i] = dict(position=i, permission=0, source_ip_id=0, source_wildcard_id=0, source_port_id=0, dest_ip_id=0,
                              dest_wildcard_id=0, dest_port_id=0, protocol_id=0)
            else:
                s = lambda x: None if x is None else str(x)  # noqa: E731
                out[i] = dict(position=i, permission=r.action.value,
                              source_ip_id=idx(ip_list, s(r.src_ip_address)), source_wildcard_id=idx(wc_list, s(r.src_wildcard_mask)),
                              source_port_id=idx(port_list, r.src_port), dest_ip_id=idx(ip_list, s(r.dst_ip_address)),
                              dest_wildcard_id=idx(wc_list, s(r.dst_wildcard_mask)), dest_port_id=idx(port_list, r.dst_port),
                              protocol_id=idx(proto_list, r.protocol))
        return out

    def _users(self, node, live):
        if live:
            usm = node.software_manager.software.get("user-session-manager")
            return {"local_login": 1 if (usm and usm.local_session) else 0, "remote_sessions": min(3, len(usm.remote_sessions)) if usm else 0}
        return {"local_login": 0, "remote_sessions": 0}

    def _router(self, r, o):
        node = self.net.get_node_by_hostname(r["hostname"])
        num_rules = self._inh(r, o, "num_rules")
        num_ports = self._inh(r, o, "num_ports") or 0
        inc_users = self._inh(r, o, "include_users", True)
        live = node is not None and node.operating_state.name == "ON"
        aclo = {k: self._inh(r, o, k) for k in ("ip_list", "wildcard_list", "port_list", "protocol_list")}
        obs = {"ACL": self._acl(node.acl if live else None, aclo, num_rules)}
        if num_ports:
            d = {}
            explicit = r.get("ports")  # explicit port list: slot i shows port_id of the i-th entry, padded / truncated to num_ports
            for i in range(num_ports):
                pid = i + 1 if explicit is None else (explicit[i]["port_id"] if i < len(explicit) else None)
                p = node.network_interface.get(pid) if (live and pid is not None) else None
                d[i + 1] = {"operating_status": 0 if p is None else (1 if p.enabled else 2)}
            obs["PORTS"] = d
        if inc_users:
            obs["users"] = self._users(node, live)
        return obs

    def _firewall(self, f, o):
        node = self.net.get_node_by_hostname(f["hostname"])
        num_rules = self._inh(f, o, "num_rules")
        inc_users = self._inh(f, o, "include_users", True)
        live = node is not None and node.operating_state.name == "ON"
        aclo = {k: self._inh(f, o, k) for k in ("ip_list", "wildcard_list", "port_list", "protocol_list")}
        g = lambda name: self._acl(getattr(node, name) if live else None, aclo, num_rules)  # noqa: E731
        obs = {"PORTS": {i: {"operating_status": 0 if not live or node.network_interface.get(i) is None else (1 if node.network_interface[i].enabled else 2)}
                         for i in (1, 2, 3)},
               "ACL": {"INTERNAL": {"INBOUND": g("internal_inbound_acl"), "OUTBOUND": g("internal_outbound_acl")},
                       "DMZ": {"INBOUND": g("dmz_inbound_acl"), "OUTBOUND": g("dmz_outbound_acl")},
                       "EXTERNAL": {"INBOUND": g("external_inbound_acl"), "OUTBOUND": g("external_outbound_acl")}}}
        if inc_users:
            obs["users"] = self._users(node, live)
        return obs

    # ------------------------------------------------------------------ links
    def _link(self, ref):
        try:
            a, b = ref.split("<->")
            ha, pa = a.split(":eth-")
            hb, pb = b.split(":eth-")
        except ValueError:
            # not of the documented form <host>:eth-<n><-><host>:eth-<n> (the shipped UC7 files contain e.g. "SW:eth2<->PC:eth-1"):
            # it names no link, so the leaf reads the default
            return {"PROTOCOLS": {"ALL": 0}}
        for link in self.net.links.values():
            na, nb = link.endpoint_a._connected_node, link.endpoint_b._connected_node
            ea = (na.config.hostname if na else None, str(link.endpoint_a.port_num))
            eb = (nb.config.hostname if nb else None, str(link.endpoint_b.port_num))
            if {ea, eb} == {(ha, pa), (hb, pb)}:
                load, bw = link.current_load, link.bandwidth
                band = 0 if load == 0 else min(10, int(load / bw * 9) + 1)
                return {"PROTOCOLS": {"ALL": band}}
        return {"PROTOCOLS": {"ALL": 0}}


def compare(exp, got, path=""):
    """first mismatch between expected and real observation, ignoring SKIP leaves -> (path, expected, got) | None"""
    if exp is SKIP or (isinstance(exp, str) and exp == SKIP):
        return None
    if isinstance(exp, dict):
        if not isinstance(got, dict):
            return path, "dict", type(got).__name__
        for k in exp:
            if k not in got:
                return f"{path}/{k}", exp[k], "<missing>"
            r = compare(exp[k], got[k], f"{path}/{k}")
            if r:
                return r
        for k in got:
            if k not in exp:
                return f"{path}/{k}", "<absent in reference>", got[k]
        return None
    try:
        same = int(exp) == int(got)
    except Exception:
        same = exp == got
    return None if same else (path, exp, got)


def count_leaves(exp):
    if isinstance(exp, dict):
        return sum(count_leaves(v) for v in exp.values())
    return 0 if (isinstance(exp, str) and exp == SKIP) else 1
