"""Two independent inventories of a scenario (C20): `declared(cfg)` is computed from the scenario dict using only the
configuration documentation; `built(game)` is read from the objects right after PrimaiteGame.from_config (before any
step). Both are canonical, JSON-able dicts with the same shape; a diff is the witness."""
from __future__ import annotations

from ipaddress import IPv4Address

DEFAULT_BANDWIDTH = 100
HOST_TYPES = ("computer", "server", "printer", "host-node")

# option name in the scenario file -> attribute on the built object that carries it at run time
RUNTIME_ATTR = {
    "database-service": {"backup_server_ip": "backup_server_ip", "db_password": "password"},
    "database-client": {"db_server_ip": "server_ip_address", "server_password": "server_password"},
    "web-browser": {"target_url": "config.target_url"},
    "dns-server": {"domain_mapping": "dns_table"},
    "dns-client": {"dns_server": "dns_server"},
    "ntp-client": {"ntp_server_ip": "ntp_server"},
    "ftp-server": {"server_password": "config.server_password"},
    "dos-bot": {"target_ip_address": "target_ip_address", "target_port": "target_port", "payload": "payload", "repeat": "repeat",
                "port_scan_p_of_success": "port_scan_p_of_success", "dos_intensity": "dos_intensity", "max_sessions": "max_sessions"},
    "data-manipulation-bot": {"server_ip": "server_ip_address", "server_password": "server_password", "payload": "payload",
                              "port_scan_p_of_success": "port_scan_p_of_success", "data_manipulation_p_of_success": "data_manipulation_p_of_success",
                              "repeat": "repeat"},
    "ransomware-script": {"server_ip": "server_ip_address", "server_password": "server_password", "payload": "payload"},
    "c2-beacon": {"c2_server_ip_address": "c2_remote_connection", "keep_alive_frequency": "config.keep_alive_frequency",
                  "masquerade_protocol": "config.masquerade_protocol", "masquerade_port": "config.masquerade_port"},
}
COMMON = {"fixing_duration": "config.fixing_duration"}


def _s(x):
    from primaite.utils.validation.port import PORT_LOOKUP

    if x is None:
        return None
    if isinstance(x, dict):
        return {str(k): _s(v) for k, v in sorted(x.items(), key=lambda kv: str(kv[0]))}
    if isinstance(x, (list, tuple, set, frozenset)):
        return sorted((_s(v) for v in x), key=str)
    if isinstance(x, bool):
        return x
    if isinstance(x, float) and x == int(x):
        return int(x)
    if hasattr(x, "model_dump"):
        return _s(x.model_dump())
    if isinstance(x, str) and x in PORT_LOOKUP and x.isupper():
        return PORT_LOOKUP[x]
    if isinstance(x, str) and x.upper() in ("TCP", "UDP", "ICMP"):
        return x.lower()
    if isinstance(x, str) and x.lower() in ("http", "ftp", "dns", "ssh", "ntp") and x.upper() in PORT_LOOKUP:
        return PORT_LOOKUP[x.upper()]
    if hasattr(x, "name") and hasattr(x, "value") and type(x).__module__ != "builtins":
        return x.name
    return x if isinstance(x, (int, float)) else str(x)


def _rule_decl(r):
    from primaite.utils.validation.ip_protocol import PROTOCOL_LOOKUP
    from primaite.utils.validation.port import PORT_LOOKUP

    p = r.get("protocol")
    return {"action": r["action"], "protocol": None if not p else PROTOCOL_LOOKUP.get(p, p),
            "src_ip": r.get("src_ip"), "src_wildcard": r.get("src_wildcard_mask"), "dst_ip": r.get("dst_ip"), "dst_wildcard": r.get("dst_wildcard_mask"),
            "src_port": None if not r.get("src_port") else PORT_LOOKUP[r["src_port"]], "dst_port": None if not r.get("dst_port") else PORT_LOOKUP[r["dst_port"]]}


def _rule_built(r):
    s = lambda x: None if x is None else str(x)  # noqa: E731
    return {"action": r.action.name, "protocol": r.protocol, "src_ip": s(r.src_ip_address), "src_wildcard": s(r.src_wildcard_mask),
            "dst_ip": s(r.dst_ip_address), "dst_wildcard": s(r.dst_wildcard_mask), "src_port": r.src_port, "dst_port": r.dst_port}


FW_LISTS = ("internal_inbound_acl", "internal_outbound_acl", "dmz_inbound_acl", "dmz_outbound_acl", "external_inbound_acl", "external_outbound_acl")


def declared(cfg):
    net = cfg.get("simulation", {}).get("network", {})
    nodes = {}
    for n in net.get("nodes", []):
        t = n["type"]
        d = {"type": t, "power": (n.get("operating_state") or "ON").upper()}
        nics = {}
        if t in HOST_TYPES:
            nics["1"] = [n["ip_address"], n.get("subnet_mask", "255.255.255.0")]
            for k, v in (n.get("network_interfaces") or {}).items():
                nics[str(k)] = [v["ip_address"], v["subnet_mask"]]
            d["default_gateway"] = n.get("default_gateway")
            d["dns_server"] = n.get("dns_server")
        elif t == "router":
            for k, v in (n.get("ports") or {}).items():
                nics[str(k)] = [v["ip_address"], v.get("subnet_mask", "255.255.255.0")]
        elif t == "firewall":
            for k, idx in (("external_port", "1"), ("internal_port", "2"), ("dmz_port", "3")):
                v = (n.get("ports") or {}).get(k)
                if v:
                    nics[idx] = [v["ip_address"], v.get("subnet_mask", "255.255.255.0")]
        elif t == "wireless-router":
            if "router_interface" in n:
                nics["2"] = [n["router_interface"]["ip_address"], n["router_interface"]["subnet_mask"]]
            if "wireless_access_point" in n:
                nics["1"] = [n["wireless_access_point"]["ip_address"], n["wireless_access_point"]["subnet_mask"]]
        d["nics"] = nics
        if t == "switch":
            d["num_ports"] = n.get("num_ports", 8)
        d["start_up_duration"] = int(n.get("start_up_duration", 3))
        d["shut_down_duration"] = int(n.get("shut_down_duration", 3))
        if t in ("router", "wireless-router"):
            d["acl"] = {"acl": {str(int(k)): _rule_decl(v) for k, v in (n.get("acl") or {}).items()}}
        if t == "firewall":
            d["acl"] = {ln: {str(int(k)): _rule_decl(v) for k, v in ((n.get("acl") or {}).get(ln) or {}).items()} for ln in FW_LISTS}
        if t in ("router", "firewall", "wireless-router"):
            d["routes"] = sorted([[r["address"], r.get("subnet_mask", "255.255.255.0"), r["next_hop_ip_address"], float(r.get("metric", 0))]
                                  for r in (n.get("routes") or [])], key=str)
            d["default_route"] = (n.get("default_route") or {}).get("next_hop_ip_address")
        sw = {}
        for kind in ("services", "applications"):
            for s in n.get(kind) or []:
                opts = dict(s.get("options") or {})
                opts.pop("type", None)
                sw[s["type"]] = {"kind": kind, "options": _s(opts)}
        d["software"] = sw
        users = {"admin": ["admin", True]}
        for u in n.get("users") or []:
            users[u["username"]] = [u["password"], bool(u.get("is_admin", False))]
        if t != "switch":
            d["users"] = users
        def fname(x):
            # documented: a file name without an extension gets the extension of its declared type
            nm = x["file_name"]
            if "." not in nm and x.get("type") and x["type"].upper() != "UNKNOWN":
                nm = f"{nm}.{x['type'].lower()}"
            return nm

        d["folders"] = {f["folder_name"]: sorted(fname(x) for x in f.get("files", [])) for f in (n.get("folders") or [])}
        nodes[n["hostname"]] = d
    links = {}
    for l in net.get("links", []):
        a, b = (l["endpoint_a_hostname"], int(l["endpoint_a_port"])), (l["endpoint_b_hostname"], int(l["endpoint_b_port"]))
        key = "<->".join(sorted([f"{a[0]}:{a[1]}", f"{b[0]}:{b[1]}"]))
        links[key] = float(l.get("bandwidth", DEFAULT_BANDWIDTH))
    agents = {}
    for a in cfg.get("agents", []):
        am = (a.get("action_space") or {}).get("action_map") or {}
        agents[a["ref"]] = {"type": a["type"], "team": a.get("team"), "n_actions": len(am),
                            "actions": {str(k): [v["action"], _s(v.get("options") or {})] for k, v in am.items()},
                            "rewards": [[c["type"], float(c.get("weight", 1.0))] for c in (a.get("reward_function") or {}).get("reward_components", [])],
                            "settings": _s(a.get("agent_settings") or {})}
    return {"nodes": nodes, "links": links, "agents": agents, "max_episode_length": cfg["game"].get("max_episode_length", 256)}


def _attr(obj, path):
    cur = obj
    for p in path.split("."):
        cur = getattr(cur, p)
    return cur


def built(game, cfg):
    """read the same inventory from the built objects. cfg is used ONLY to know which option names to look up."""
    from primaite.simulator.network.hardware.nodes.network.firewall import Firewall
    from primaite.simulator.network.hardware.nodes.network.router import Router

    net = game.simulation.network
    decl = declared(cfg)
    nodes = {}
    for node in net.nodes.values():
        hn = node.config.hostname
        t = node.config.type
        d = {"type": t, "power": node.operating_state.name}
        dn = decl["nodes"].get(hn, {})
        nics = {}
        for port, nic in node.network_interface.items():
            if hasattr(nic, "ip_address") and str(port) in (dn.get("nics") or {}):
                nics[str(port)] = [str(nic.ip_address), str(nic.subnet_mask)]
        if t in HOST_TYPES:
            # every NIC the host has must be declared
            for port, nic in node.network_interface.items():
                nics[str(port)] = [str(nic.ip_address), str(nic.subnet_mask)]
            d["default_gateway"] = None if node.config.default_gateway is None else str(node.config.default_gateway)
            d["dns_server"] = None if node.config.dns_server is None else str(node.config.dns_server)
        d["nics"] = nics
        if t == "switch":
            d["num_ports"] = len(node.network_interface)
        d["start_up_duration"] = node.config.start_up_duration
        d["shut_down_duration"] = node.config.shut_down_duration
        if isinstance(node, Firewall):
            d["acl"] = {ln: {str(i): _rule_built(r) for i, r in enumerate(getattr(node, ln).acl) if r is not None} for ln in FW_LISTS}
        elif isinstance(node, Router):
            rules = {str(i): _rule_built(r) for i, r in enumerate(node.acl.acl) if r is not None}
            # documented defaults (22: ARP, 23: ICMP) are present unless the file overrides those positions
            for pos, dflt in (("22", {"action": "PERMIT", "protocol": None, "src_ip": None, "src_wildcard": None, "dst_ip": None, "dst_wildcard": None, "src_port": 219, "dst_port": 219}),
                              ("23", {"action": "PERMIT", "protocol": "icmp", "src_ip": None, "src_wildcard": None, "dst_ip": None, "dst_wildcard": None, "src_port": None, "dst_port": None})):
                if pos not in (dn.get("acl") or {}).get("acl", {}) and rules.get(pos) == dflt:
                    rules.pop(pos)
            d["acl"] = {"acl": rules}
        if isinstance(node, Router):
            d["routes"] = sorted([[str(r.address), str(r.subnet_mask), str(r.next_hop_ip_address), float(r.metric)] for r in node.route_table.routes], key=str)
            dr = node.route_table.default_route
            d["default_route"] = None if dr is None else str(dr.next_hop_ip_address)
        sw = {}
        system = set()
        for cls_name in getattr(type(node), "SYSTEM_SOFTWARE", {}):
            system.add("arp" if cls_name == "host-arp" else cls_name)
        system |= {"arp", "icmp", "nmap"} if isinstance(node, Router) else set()
        auto = set()
        if "database-service" in node.software_manager.software:
            auto.add("ftp-client")
        for name, s in node.software_manager.software.items():
            dsw = (dn.get("software") or {}).get(name)
            if dsw is None:
                if name in system or name in auto:
                    continue
                sw[name] = {"kind": "UNDECLARED", "options": {}}
                continue
            kind = "services" if hasattr(s, "restart_duration") else "applications"
            opts = {}
            table = {**COMMON, **RUNTIME_ATTR.get(name, {})}
            for oname in dsw["options"]:
                if oname == "listen_on_ports":
                    opts[oname] = _s(sorted(s.listen_on_ports))
                elif oname in table:
                    try:
                        opts[oname] = _s(_attr(s, table[oname]))
                    except Exception as e:
                        opts[oname] = f"<unreadable: {type(e).__name__}>"
                else:
                    opts[oname] = dsw["options"][oname]  # no documented runtime carrier known: not judged
            sw[name] = {"kind": kind, "options": opts}
        d["software"] = sw
        um = node.software_manager.software.get("user-manager")
        if um is not None:
            d["users"] = {u: [x.password, bool(x.is_admin)] for u, x in um.users.items()}
        folders = {}
        for fname in (dn.get("folders") or {}):
            fo = node.file_system.get_folder(fname)
            folders[fname] = None if fo is None else sorted(f.name for f in fo.files.values() if f.name in set(dn["folders"][fname]))
        d["folders"] = folders
        nodes[hn] = d
    links = {}
    for link in net.links.values():
        a, b = link.endpoint_a, link.endpoint_b
        key = "<->".join(sorted([f"{a._connected_node.config.hostname}:{a.port_num}", f"{b._connected_node.config.hostname}:{b.port_num}"]))
        links[key] = float(link.bandwidth)
    agents = {}
    for ref, ag in game.agents.items():
        da = decl["agents"].get(ref, {})
        settings = {}
        for k, dv in (da.get("settings") or {}).items():
            try:
                settings[k] = _project(_s(getattr(ag.config.agent_settings, k)), dv)
            except Exception as e:
                settings[k] = f"<unreadable: {type(e).__name__}>"
        agents[ref] = {"type": ag.config.type, "team": ag.config.team, "n_actions": len(ag.action_manager.action_map),
                       "actions": {str(k): [v[0], _s(v[1])] for k, v in ag.action_manager.action_map.items()},
                       "rewards": [[type(c).__name__, float(w)] for c, w in ag.reward_function.reward_components],
                       "settings": settings}
    return {"nodes": nodes, "links": links, "agents": agents, "max_episode_length": game.options.max_episode_length}


def _project(built_v, declared_v):
    """keep only the keys the file declares (defaults filled in by the schema are not 'declared')"""
    if isinstance(declared_v, dict) and isinstance(built_v, dict):
        return {k: _project(built_v.get(k, "<absent>"), v) for k, v in declared_v.items()}
    if isinstance(declared_v, list) and isinstance(built_v, list) and len(declared_v) == len(built_v):
        return [_project(b, d) for b, d in zip(built_v, declared_v)]
    if isinstance(declared_v, (int, float)) and not isinstance(declared_v, bool) and isinstance(built_v, (int, float)) and float(declared_v) == float(built_v):
        return declared_v
    return built_v


def reward_class_names():
    from primaite.game.agent.rewards import AbstractReward

    return {k: v.__name__ for k, v in AbstractReward._registry.items()}
