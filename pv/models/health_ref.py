"""C14 shadow model: path-keyed visible / true health and timed operations (fix, folder scan, folder restore, node scan).

Keys (never object identities - a restored database file is a new object for the same path):
    ("sw", host, software name)   ("file", host, folder name, file name)   ("folder", host, folder name)

The model holds, per key, the true health `A` and the visible health `V` as enum *names*, plus the context the
monitor reports (the harness operation being applied, whether a tick is being applied, the stack of dynamic regions
entered by the wrapped methods) and the pending timed operations.  It is updated ONLY through

    * field writes reported by the taps (`visible_write`, `actual_write`) - each write that changes the value for its
      key must be explained by the context, otherwise it is a violation;
    * explicit creation / replacement events (`adopt`);
    * `sync`, which compares the real values read from the simulator objects with the model at quiescent points (a
      change that happened without any field write, e.g. by swapping the object behind a path, is caught here).

What is judged (and nothing more - see README-checks item 1):
    visible health (software, file, folder) changes only inside the dynamic extent of a scan that covers the item and
        that is rooted in a scan request for it (instant scans) or in a timed scan completion (folder scan tick, node
        scan inside Node.apply_timestep); for software and files the new value equals the true health at that moment;
    true health of software and files changes only by explicit events: compromise request, fix request (-> FIXING),
        fix completion (-> GOOD), start/run from UNUSED, install completion, connection capacity (OVERWHELMED and back),
        corrupt / repair / restore requests, timed folder-restore completion, SQL DELETE/ENCRYPT, database restore,
        file creation/storage; never inside a scan;
    a folder's TRUE health is not judged;
    timed operations complete on a tick taken from the candidate set {request tick + k} (k constant per mechanism and
        duration, supplied by the harness), at least one completion no later than the latest candidate.
"""
from __future__ import annotations

SCAN_REGIONS = ("Software.scan", "File.scan", "Folder.scan_tick", "Folder.scan_call")


def folder_of(key):
    return ("folder", key[1], key[2]) if key[0] == "file" else None


def covers(rname, rkey, key):
    """does the scan region (rname, rkey) cover the item `key`?"""
    if rname in ("Software.scan", "File.scan"):
        return rkey == key
    if rname in ("Folder.scan_tick", "Folder.scan_call"):
        return rkey == key or (key[0] == "file" and folder_of(key) == rkey)
    return False


class Region:
    __slots__ = ("name", "key", "info")

    def __init__(self, name, key, info=None):
        self.name, self.key, self.info = name, key, info if info is not None else {}


class HealthShadow:
    def __init__(self, sink, cov):
        self.sink = sink  # sink(mech, msg)
        self.cov = cov
        self.A, self.V = {}, {}
        self.tick = 0  # completed ticks
        self.in_tick = False
        self.op = None  # (kind, key) of the harness operation being applied
        self.regions = []
        self.timed = {}  # (mech, key) -> {"cands": set, "opt": set, "free": bool, "reqs": [(tick, d, k)]}
        self.db_file = {}  # host -> key of the database file (explained by SQL attacks / database restore on that host)

    # ------------------------------------------------------------------ context
    def enter(self, name, key, info=None):
        r = Region(name, key, info)
        self.regions.append(r)
        return r

    def exit(self, r):
        if self.regions and self.regions[-1] is r:
            self.regions.pop()
        elif r in self.regions:  # unbalanced (exception inside): unwind down to r
            while self.regions and self.regions.pop() is not r:
                pass

    def find(self, name, key=None):
        for r in reversed(self.regions):
            if r.name == name and (key is None or r.key == key):
                return r
        return None

    def where(self):
        """stable name of the place a write happened: innermost region, else the harness operation, else 'tick'"""
        if self.regions and not (len(self.regions) == 1 and self.regions[0].name == "Node.tick"):
            return self.regions[-1].name
        if self.op is not None:
            return self.op[0]
        return "tick" if self.in_tick else "idle"

    def now(self):
        return self.tick + 1 if self.in_tick else self.tick

    # ------------------------------------------------------------------ visible health
    def _covering_scan(self, key):
        for r in reversed(self.regions):
            if r.name in SCAN_REGIONS and covers(r.name, r.key, key):
                return r
        return None

    def _legit_scan_root(self, key):
        """the whole region stack is scan machinery rooted in a scan request for the item or in a timed completion"""
        names = [r.name for r in self.regions]
        if self.in_tick:
            if not names or names[0] != "Node.tick":
                return False
            inner = self.regions[1:]
            if not inner or any(r.name not in SCAN_REGIONS for r in inner):
                return False
            root = inner[0]
            if root.name == "Folder.scan_tick":
                return covers(root.name, root.key, key)
            if root.name == "Software.scan":
                return root.key == key
            if root.name == "Folder.scan_call" and root.info.get("instant"):
                return covers(root.name, root.key, key)
            return False
        if self.op is None or not names or any(n not in SCAN_REGIONS for n in names):
            return False
        kind, okey = self.op
        root = self.regions[0]
        if kind == "sw_scan":
            return root.name == "Software.scan" and okey == key == root.key
        if kind == "file_scan":
            return root.name == "File.scan" and okey == key == root.key
        if kind == "folder_scan":  # a folder scan that completes at the request itself (judged by the timing rule)
            return root.name == "Folder.scan_call" and root.key == okey and covers(root.name, root.key, key)
        return False

    def visible_write(self, key, old, new, actual_now):
        kind = key[0]
        self.cov.inc("visible_writes")
        for r in self.regions:
            if "vwrites" in r.info:
                r.info["vwrites"] += 1
        if key not in self.V:
            self.V[key] = old
        prev = self.V[key]
        if new == prev:
            self.cov.inc("visible_writes_same_value")
            return
        reg = self._covering_scan(key)
        if reg is None or not self._legit_scan_root(key):
            self.cov.inc("visible_changes_outside_scan")
            self.sink(f"visible-changes-outside-scan/{kind}@{self.where()}",
                      f"visible health of {key} changed {prev} -> {new} outside a completing scan covering it "
                      f"(regions {[r.name for r in self.regions]}, op {self.op}, in_tick={self.in_tick})")
        else:
            self.cov.inc("visible_changes_inside_scan")
            self.cov.hit("visible_change_cells", f"{kind}|{self.regions[0].name if not self.in_tick else self.regions[1].name}|{prev}->{new}")
            if kind != "folder" and new != actual_now:
                self.sink(f"scan-sets-visible-unequal-actual/{kind}@{reg.name}",
                          f"scan of {key} set visible health to {new} while true health is {actual_now}")
        self.V[key] = new

    # ------------------------------------------------------------------ true health
    def _explain_sw(self, key, prev, new):
        if self.find("add_connection", key) and (new == "OVERWHELMED" or (prev == "OVERWHELMED" and new == "GOOD")):
            return "connection-capacity"
        if self.find("fix_status", key) and self.in_tick and prev == "FIXING" and new == "GOOD":
            return "fix-complete"
        if self.find("restore_backup", key) and new == "GOOD":
            return "db-restore"
        if self.find("start", key) and prev == "UNUSED" and new == "GOOD":
            return "start-from-unused"
        if self.find("install_tick", key) and new == "GOOD":
            return "install-complete"
        if self.find("web_get", key):
            return "web-get(unjudged)"
        if not self.in_tick and self.op is not None and self.op[1] == key:
            if self.op[0] == "sw_compromise" and new == "COMPROMISED":
                return "compromise"
            if self.op[0] == "sw_fix" and new == "FIXING" and prev in ("GOOD", "COMPROMISED"):
                return "fix-start"
        return None

    def _explain_file(self, key, prev, new):
        host, fkey = key[1], folder_of(key)
        if self.find("store_data") or self.find("create_file"):
            return "created"
        if self.db_file.get(host) == key:
            if any(r.name == "process_sql" and r.key[1] == host for r in self.regions) and new in ("COMPROMISED", "CORRUPT"):
                return "sql-attack"
            if any(r.name == "restore_backup" and r.key[1] == host for r in self.regions):
                return "db-restore"
        if self.in_tick and self.find("restoring_tick", fkey) and new == "GOOD":
            return "folder-restore-complete"
        if not self.in_tick and self.op is not None:
            kind, okey = self.op
            if kind == "file_corrupt" and okey == key and new == "CORRUPT":
                return "corrupt"
            if kind == "folder_corrupt" and okey == fkey and new == "CORRUPT":
                return "corrupt"
            if kind in ("file_repair", "file_restore", "fs_restore_file") and okey == key and new == "GOOD":
                return kind.replace("file_", "").replace("fs_", "")
            if kind == "folder_repair" and okey == fkey and new == "GOOD":
                return "repair"
            if kind in ("folder_restore", "fs_restore_folder") and okey == fkey and new == "GOOD" and self.find("Folder.restore_call", fkey):
                return "folder-restore-complete"  # completion at the request itself (judged by the timing rule)
        return None

    def actual_write(self, key, old, new):
        kind = key[0]
        if kind == "folder":
            for r in self.regions:
                if "awrites" in r.info and r.key == key:
                    r.info["awrites"] += 1
            self.cov.inc("folder_true_health_writes_unjudged")
            self.A[key] = new
            return
        if key not in self.A:
            self.A[key] = old
        prev = self.A[key]
        if new == prev:
            return
        self.cov.inc("actual_changes")
        scan = next((r for r in reversed(self.regions) if r.name in SCAN_REGIONS), None)
        if scan is not None:
            self.sink(f"true-health-changes-inside-scan/{kind}@{scan.name}",
                      f"true health of {key} changed {prev} -> {new} inside {scan.name} of {scan.key}")
        else:
            why = self._explain_sw(key, prev, new) if kind == "sw" else self._explain_file(key, prev, new)
            if why is None:
                self.cov.inc("actual_changes_unexplained")
                self.sink(f"{'software' if kind == 'sw' else 'file'}-health-change-unexplained/{prev}->{new}@{self.where()}",
                          f"true health of {key} changed {prev} -> {new} with no explicit event explaining it "
                          f"(regions {[r.name for r in self.regions]}, op {self.op}, in_tick={self.in_tick})")
            else:
                self.cov.inc("actual_changes_explained")
                self.cov.hit("actual_change_causes", f"{kind}|{why}|{prev}->{new}")
                if why == "fix-complete":
                    self.completed("fix", key)
        if kind == "sw" and prev == "FIXING" and new != "GOOD" and ("fix", key) in self.timed:
            # an attack during FIXING: whether the fix still has to finish is not documented -> not judged further
            del self.timed[("fix", key)]
            self.cov.inc("fix_cancelled_by_event")
        self.A[key] = new

    def adopt(self, key, actual, visible, why):
        """explicit creation / replacement of the object behind a path"""
        self.cov.hit("adopted", why)
        if actual is not None:
            self.A[key] = actual
        if visible is not None:
            self.V[key] = visible

    def sync(self, universe, place="tick"):
        """quiescent point: real values by path vs the model. universe: key -> (actual name, visible name)"""
        self.cov.inc("sync_evals")
        for key, (a, v) in universe.items():
            kind = key[0]
            if key not in self.V or key not in self.A:
                self.A.setdefault(key, a)
                self.V.setdefault(key, v)
                self.cov.inc("items_first_seen")
                continue
            self.cov.inc("sync_item_compares")
            if v != self.V[key]:
                self.sink(f"visible-changes-outside-scan/{kind}@{place}/no-write",
                          f"visible health reported for {key} changed {self.V[key]} -> {v} without any scan (the object "
                          f"behind the path was replaced or written around the taps)")
                self.V[key] = v
            if a != self.A[key]:
                if kind != "folder":
                    self.sink(f"{'software' if kind == 'sw' else 'file'}-health-change-unexplained/{self.A[key]}->{a}@{place}/no-write",
                              f"true health of {key} changed {self.A[key]} -> {a} without an explicit event")
                self.A[key] = a
        for key in [k for k in self.A if k not in universe]:
            self.A.pop(key, None)
            self.V.pop(key, None)
            for tk in [t for t in self.timed if t[1] == key]:
                del self.timed[tk]
            self.cov.inc("items_gone")

    # ------------------------------------------------------------------ timed operations
    def start(self, mech, key, d, k):
        """an accepted request of a timed operation; k None => the mechanism is not judged here (known broken / disturbed)"""
        t = self.timed.setdefault((mech, key), {"cands": set(), "opt": set(), "free": False, "reqs": []})
        t["reqs"].append((self.tick, d, k))
        if k is None:
            t["free"] = True
            t["cands"].clear()
            t["opt"].clear()
        elif not t["free"]:
            t["cands"].add(self.tick + k)
        self.cov.hit("timed_requests", f"{mech}|d={d}")

    def disturb(self, pred, why):
        for tk, t in self.timed.items():
            if pred(tk) and not t["free"]:
                t["free"] = True
                t["cands"].clear()
                t["opt"].clear()
                self.cov.hit("timed_ops_disturbed", f"{tk[0]}|{why}")

    def completed(self, mech, key):
        now = self.now()
        self.cov.hit("completions_observed", mech)
        t = self.timed.get((mech, key))
        if t is None:
            self.sink(f"{mech}-completes-unrequested", f"{mech} of {key} completed at tick {now} but no request is pending")
            return
        if t["free"]:
            self.cov.hit("completions_unjudged", mech)
            del self.timed[(mech, key)]
            return
        if now in t["cands"]:
            self.cov.inc("completions_judged_on_schedule")
            self.cov.hit("completions_on_schedule", f"{mech}|d={t['reqs'][-1][1]}")
            t["opt"] |= {c for c in t["cands"] if c > now}
            t["cands"] = set()
        elif now in t["opt"]:
            t["opt"].discard(now)
            self.cov.hit("completions_on_schedule_second_request", mech)
        else:
            allc = t["cands"] | t["opt"]
            side = "early" if allc and now < min(allc) else "late"
            self.sink(f"{mech}-completes-off-schedule/{side}",
                      f"{mech} of {key} completed at tick {now}; requests (tick, duration, k) {t['reqs']}, "
                      f"acceptable ticks {sorted(allc)}")
            t["cands"], t["opt"] = set(), set()
        if not t["cands"] and not t["opt"]:
            del self.timed[(mech, key)]

    def tick_end(self):
        self.tick += 1
        for (mech, key), t in list(self.timed.items()):
            if t["cands"] and self.tick >= max(t["cands"]):
                self.sink(f"{mech}-misses-deadline",
                          f"{mech} of {key} has not completed by tick {self.tick}; requests (tick, duration, k) {t['reqs']}")
                del self.timed[(mech, key)]
                continue
            t["opt"] = {c for c in t["opt"] if c > self.tick}
            if not t["cands"] and not t["opt"] and not t["free"]:
                del self.timed[(mech, key)]

    def pending(self, mech=None):
        return [tk for tk, t in self.timed.items() if (mech is None or tk[0] == mech) and (t["cands"] or t["free"])]
