"""Reference ACL: the property statement (C07) as 25 lines of executable model.

A rule is a dict with keys action ('PERMIT'|'DENY'), protocol, src, srcw, dst, dstw, sport, dport
(None = unspecified). Addresses/wildcards are ints. A packet is (proto, src, dst, sport, dport), ports None for ICMP.
"""
from __future__ import annotations

FIELDS = ("action", "protocol", "src", "srcw", "dst", "dstw", "sport", "dport")


def addr_match(base, wild, ip):
    if base is None:
        return True
    if wild is None:
        return ip == base
    return (ip & ~wild) & 0xFFFFFFFF == (base & ~wild) & 0xFFFFFFFF


def rule_matches(rule, pkt):
    proto, src, dst, sport, dport = pkt
    if rule["protocol"] is not None and rule["protocol"] != proto:
        return False
    if not addr_match(rule["src"], rule["srcw"], src):
        return False
    if not addr_match(rule["dst"], rule["dstw"], dst):
        return False
    if rule["sport"] is not None and rule["sport"] != sport:
        return False
    if rule["dport"] is not None and rule["dport"] != dport:
        return False
    return True


class RefACL:
    def __init__(self, implicit="DENY", size=24):
        self.implicit = implicit
        self.rules = [None] * size
        self.counts = [0] * size
        self.implicit_count = 0

    def add(self, pos, rule):
        self.rules[pos] = dict(rule)
        self.counts[pos] = 0

    def remove(self, pos):
        self.rules[pos] = None
        self.counts[pos] = 0

    def verdict(self, pkt, count=True):
        """-> (permitted, deciding position or None for implicit)"""
        for i, r in enumerate(self.rules):
            if r is not None and rule_matches(r, pkt):
                if count:
                    self.counts[i] += 1
                return r["action"] == "PERMIT", i
        if count:
            self.implicit_count += 1
        return self.implicit == "PERMIT", None
