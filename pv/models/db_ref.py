"""Reference model of the database service (C17): the property statement as an executable model.

State (stepped by the events the monitor observes at the server and by the op stream):
  password          the configured password (None = no password)
  max_sessions      the session limit ("at capacity" = that many issued-and-open connections)
  issued / open / closed   connection ids the server handed out / still open / closed by a delivered disconnect
  health            health of the stored database file ("GOOD" | "COMPROMISED" | "CORRUPT" | ...)
  backup_health     health the data had when the last successful backup was taken (None: no backup yet)

The model READS the environment it cannot decide itself from simulator objects (World): is the service RUNNING, is its
node ON, is the path between two hosts blocked (ACL rule the harness installed), is the backup host up.

The judge_* methods return a list of (mech, msg): only what the statement fixes is judged, in the "success implies
precondition" direction. Everything else (which refusal code, liveness, INSERT on damaged data, what fix does ...) is
counted in cov as a diagnostic.
"""
from __future__ import annotations

GOOD, COMPROMISED, CORRUPT = "GOOD", "COMPROMISED", "CORRUPT"


def sql_class(sql):
    if sql in ("SELECT", "INSERT", "DELETE", "ENCRYPT"):
        return sql
    if sql == "SELECT * FROM pg_stat_activity":
        return "PG_STAT"
    return "OTHER"


class World:
    """Object-reading view of the things the statement conditions on."""

    def __init__(self, db, srv, bak, client_ips, router=None):
        self.db, self.srv, self.bak, self.router = db, srv, bak, router
        self.client_ips = dict(client_ips)  # ip str -> client name
        self.acl = None  # kind of the DENY rule the harness put at position 0 of the router ACL (None: no block)

    # --- server
    def svc_state(self):
        return self.db.operating_state.name

    def running(self):
        return self.db.operating_state.name == "RUNNING"

    def node_state(self):
        return self.srv.operating_state.name

    def node_on(self):
        return self.srv.operating_state.name == "ON"

    def svc_health(self):
        return self.db.health_state_actual.name

    def db_file(self):
        fs = self.srv.file_system
        f = fs.get_file("database", "database.db")
        if f is None:
            f = fs.get_file("database", "database.db", include_deleted=True)
        return f

    def file_health(self):
        f = self.db_file()
        if f is None:
            return "MISSING"
        return ("DELETED:" if f.deleted else "") + f.health_status.name

    def connections(self):
        return frozenset(self.db._connections.keys())

    # --- paths
    def blocks_client(self, client):
        """does the installed DENY rule cut the db path client <-> server?"""
        k = self.acl
        if k is None:
            return False
        if k in ("all", "pg"):
            return True
        if k.startswith("src:"):
            return k[4:] == client
        return False

    def blocks_backup(self):
        return self.acl in ("all", "ftp")

    def backup_host_up(self):
        if self.bak.operating_state.name != "ON":
            return False
        ftp = self.bak.software_manager.software.get("ftp-server")
        return ftp is not None and ftp.operating_state.name == "RUNNING"


class DbRef:
    def __init__(self, world, password, max_sessions, cov):
        self.w, self.password, self.max_sessions, self.cov = world, password, max_sessions, cov
        self.issued = {}  # id -> owner ip
        self.open, self.closed = set(), set()
        self.health = world.file_health()
        self.backup_health = None
        self.damage_since_restore = None

    # ------------------------------------------------------------------ helpers
    def pw_matches(self, pw):
        """True / False / None (None: '' versus 'no password' - the documentation does not separate them)."""
        if pw == self.password:
            return True
        if {pw, self.password} == {None, ""}:
            return None
        return False

    def id_kind(self, cid):
        if cid in self.open:
            return "open"
        if cid in self.closed:
            return "closed"
        return "never-issued"

    # ------------------------------------------------------------------ server-side exchange
    def judge_exchange(self, rec):
        t = rec["type"]
        if t == "connect_request":
            return self._connect(rec)
        if t == "sql":
            return self._sql(rec)
        if t == "disconnect":
            return self._disconnect(rec)
        self.cov.hit("other_payload_types", str(t))
        return []

    def _connect(self, rec):
        out = []
        reply = rec["reply"] or {}
        new_ids = rec["conns_after"] - rec["conns_before"]
        granted = reply.get("status_code") == 200 or reply.get("response") is True or bool(new_ids)
        pw_ok = self.pw_matches(rec["password"])
        at_cap = len(self.open) >= self.max_sessions
        running, node_on = rec["svc_state"] == "RUNNING", rec["node_state"] == "ON"
        pwc = {True: "right", False: "wrong", None: "ambiguous"}[pw_ok]
        self.cov.hit("connect_cells", f"pw={pwc}|svc={rec['svc_state']}|node={rec['node_state']}|atcap={at_cap}|granted={granted}")
        if len(self.open) == self.max_sessions:
            self.cov.inc("capacity_boundary_hits")
        if granted:
            self.cov.inc("connect_granted")
            if pw_ok is False:
                kind = "no-password" if rec["password"] is None else "wrong-password"
                out.append((f"connect-granted/{kind}", f"connection granted for password {rec['password']!r}, configured {self.password!r}"))
            if not running:
                out.append(("connect-granted/service-not-running", f"connection granted while the service was {rec['svc_state']}"))
            if not node_on:
                out.append(("connect-granted/node-off", f"connection granted while the server node was {rec['node_state']}"))
            if at_cap:
                out.append(("connect-granted/at-capacity", f"connection granted with {len(self.open)} open connections, max_sessions={self.max_sessions}"))
            cid = reply.get("connection_id")
            ids = set(new_ids) | ({cid} if cid is not None else set())
            for i in ids:
                if i in self.issued:
                    self.cov.inc("diag:connection_id_reissued")
                self.issued[i] = rec["src_ip"]
                self.open.add(i)
                self.closed.discard(i)
            if cid is not None and cid not in rec["conns_after"]:
                self.cov.inc("diag:granted_id_not_registered")
        else:
            self.cov.inc("connect_refused")
            if pw_ok is True and running and node_on and not at_cap:
                self.cov.hit("diag:connect_refused_although_allowed", f"code={reply.get('status_code')}|svc_health={rec['svc_health']}")
        return out

    def _sql(self, rec):
        out = []
        reply = rec["reply"] or {}
        status = reply.get("status_code")
        ok = status == 200
        sql, cid = rec["sql"], rec["connection_id"]
        cls = sql_class(sql)
        kind = self.id_kind(cid)
        running, node_on = rec["svc_state"] == "RUNNING", rec["node_state"] == "ON"
        hb, ha = rec["health_before"], rec["health_after"]
        self.cov.hit("sql_cells", f"{cls}|id={kind}|svc={rec['svc_state']}|node={rec['node_state']}|file={hb}|status={status}")
        if kind != "open":
            self.cov.inc("forged_id_queries_seen_by_server")
        if ok or rec["ran_sql"]:
            how = "answered 200" if ok else "executed"
            if kind != "open":
                out.append((f"query-accepted-on-{kind}-connection/{cls}", f"{sql!r} on connection id {cid!r} ({kind}) was {how}"))
            if not running:
                out.append(("query-accepted/service-not-running", f"{sql!r} was {how} while the service was {rec['svc_state']}"))
            if not node_on:
                out.append(("query-accepted/node-off", f"{sql!r} was {how} while the server node was {rec['node_state']}"))
        if ok:
            self.cov.inc("sql_ok")
            if cls == "DELETE":
                self.cov.inc("delete_ok")
                if ha != COMPROMISED:
                    out.append(("delete-success-file-not-compromised", f"DELETE answered 200 but database.db is {ha} (was {hb})"))
                self.health = COMPROMISED
                self.damage_since_restore = "DELETE"
            elif cls == "ENCRYPT":
                self.cov.inc("encrypt_ok")
                if ha != CORRUPT:
                    out.append(("encrypt-success-file-not-corrupt", f"ENCRYPT answered 200 but database.db is {ha} (was {hb})"))
                self.health = CORRUPT
                self.damage_since_restore = "ENCRYPT"
            else:
                if cls == "SELECT" and self.health == COMPROMISED:
                    out.append(("select-succeeds-on-compromised-data", f"SELECT answered 200 although database.db is {hb} and was neither repaired nor restored"))
                if ha != hb:
                    self.cov.hit("diag:nondestructive_query_changed_health", f"{cls}:{hb}->{ha}")
                    self.health = ha
        else:
            self.cov.inc("sql_refused")
            if ha != hb:
                out.append((f"refused-query-changed-data/{cls}", f"{sql!r} on id {cid!r} ({kind}) answered {status} but database.db went {hb} -> {ha}"))
            if kind == "open" and running and node_on:
                self.cov.hit("diag:query_refused_on_open_connection", f"{cls}|file={hb}|svc_health={rec['svc_health']}|code={status}")
        return out

    def _disconnect(self, rec):
        cid = rec["connection_id"]
        processed = rec["svc_state"] == "RUNNING" and rec["node_state"] == "ON"
        self.cov.hit("disconnect_cells", f"id={self.id_kind(cid)}|svc={rec['svc_state']}|node={rec['node_state']}")
        if processed and cid in self.open and self.issued.get(cid) == rec["src_ip"]:
            self.open.discard(cid)
            self.closed.add(cid)
            self.cov.inc("disconnects_delivered")
            if cid in rec["conns_after"]:
                self.cov.inc("diag:delivered_disconnect_left_id_registered")
        else:
            self.cov.inc("diag:disconnect_not_closing")
        return []

    # ------------------------------------------------------------------ backup / restore
    def judge_backup(self, pre, result, health_now):
        self.cov.hit("backup_cells", f"svc={pre['svc_state']}|node={pre['node_state']}|blocked={pre['blocked']}|bak_up={pre['bak_up']}|had={self.backup_health is not None}|ok={bool(result)}")
        if result:
            self.cov.inc("backups_ok")
            if not (pre["svc_state"] == "RUNNING" and pre["node_state"] == "ON" and not pre["blocked"] and pre["bak_up"]):
                self.cov.inc("diag:backup_reported_success_while_unavailable")
            self.backup_health = health_now
        return []

    def judge_restore(self, pre, result, health_after):
        out = []
        had = self.backup_health
        self.cov.hit("restore_cells", f"svc={pre['svc_state']}|node={pre['node_state']}|blocked={pre['blocked']}|bak_up={pre['bak_up']}|backup={had}|file={pre['health']}|ok={bool(result)}")
        if result:
            self.cov.inc("restores_ok")
            if pre["svc_state"] != "RUNNING":
                out.append(("restore-succeeds/service-not-running", f"restore_backup reported success while the service was {pre['svc_state']}"))
            if pre["node_state"] != "ON":
                out.append(("restore-succeeds/node-off", f"restore_backup reported success while the server node was {pre['node_state']}"))
            if pre["blocked"]:
                out.append(("restore-succeeds/path-blocked", "restore_backup reported success while the path to the backup host was blocked"))
            if not pre["bak_up"]:
                out.append(("restore-succeeds/backup-server-unreachable", "restore_backup reported success while the backup host was down"))
            if had is None:
                self.cov.inc("diag:restore_ok_without_backup")
                self.health = health_after
            elif had == GOOD:
                self.cov.hit("restore_of_healthy_backup_after", str(self.damage_since_restore or pre["health"]))
                if health_after != GOOD:
                    out.append((f"restore-of-healthy-backup-leaves-file-{health_after.lower()}",
                                f"restore_backup reported success, the backup was taken while the data was GOOD, but database.db is {health_after} (was {pre['health']})"))
                self.health = GOOD
                self.damage_since_restore = None
            else:
                self.cov.hit("diag:restore_of_unhealthy_backup", f"{had}->{health_after}")
                self.health = health_after
        else:
            self.cov.inc("restores_refused")
            if pre["svc_state"] == "RUNNING" and pre["node_state"] == "ON" and not pre["blocked"] and pre["bak_up"] and had is not None:
                self.cov.inc("diag:restore_refused_although_allowed")
            if health_after != pre["health"]:
                self.cov.hit("diag:failed_restore_changed_health", f"{pre['health']}->{health_after}")
                self.health = health_after
        return out

    # ------------------------------------------------------------------ quiescent comparison
    def resync_health(self, real, why):
        if real != self.health:
            self.cov.hit("diag:file_health_changed_outside_db_ops", f"{why}:{self.health}->{real}")
            self.health = real
