"""State snapshots (DESIGN 2.5): describe_state() extended with behaviourally relevant fields the API omits, read
straight from the objects; normalisation of opaque identifiers; first-difference comparator."""
from __future__ import annotations

import re

UUID_RE = re.compile(r"[0-9a-f]{8}-[0-9a-f]{4}-[0-9a-f]{4}-[0-9a-f]{4}-[0-9a-f]{12}")
MAC_RE = re.compile(r"\b(?:[0-9a-f]{2}:){5}[0-9a-f]{2}\b")


def _plain(x, depth=0):
    if depth > 12:
        return str(type(x))
    if isinstance(x, dict):
        return {str(k): _plain(v, depth + 1) for k, v in x.items()}
    if isinstance(x, (list, tuple, set, frozenset)):
        seq = [_plain(v, depth + 1) for v in x]
        return sorted(seq, key=str) if isinstance(x, (set, frozenset)) else seq
    if isinstance(x, (str, int, float, bool)) or x is None:
        return x
    if hasattr(x, "value") and hasattr(x, "name") and x.__class__.__module__ != "builtins":
        try:
            return x.name
        except Exception:
            pass
    return str(x)


def node_extra(node):
    d = {}
    cfg = node.config
    for f in ("start_up_countdown", "shut_down_countdown", "is_resetting", "revealed_to_red"):
        d[f] = getattr(cfg, f, None)
    d["node_scan_countdown"] = getattr(node, "node_scan_countdown", None)
    d["red_scan_countdown"] = getattr(node, "red_scan_countdown", None)
    sm = node.software_manager
    arp = getattr(sm, "arp", None)
    if arp is not None and hasattr(arp, "arp"):
        d["arp"] = {str(ip): (e.mac_address, e.network_interface_uuid) for ip, e in arp.arp.items()}
    if hasattr(node, "mac_address_table"):
        d["mac_table"] = {m: p.port_num for m, p in node.mac_address_table.items()}
    sess = getattr(node, "session_manager", None)
    if sess is not None:
        d["sessions"] = list(getattr(sess, "sessions_by_uuid", {}).keys())  # insertion order: stable under equal histories (raw ids are random)
    if hasattr(node, "route_table"):
        d["routes"] = [(str(r.address), str(r.subnet_mask), str(r.next_hop_ip_address), r.metric) for r in node.route_table.routes]
        dr = node.route_table.default_route
        d["default_route"] = None if dr is None else str(dr.next_hop_ip_address)
    sw = {}
    for name, s in sm.software.items():
        e = {}
        for f in ("restart_countdown", "_fixing_countdown", "install_countdown", "num_executions", "connected", "server_ip_address",
                  "server_password", "target_ip_address", "attack_stage", "c2_connection_active", "backup_server_ip"):
            if hasattr(s, f):
                e[f] = _plain(getattr(s, f))
        if hasattr(s, "_connections"):
            e["connections"] = list(map(str, s._connections.keys()))
        if hasattr(s, "client_connections"):
            e["client_connections"] = list(map(str, s.client_connections.keys()))
        if hasattr(s, "users"):
            e["users"] = {u: (x.password, x.disabled, x.is_admin, x.num_of_logins) for u, x in s.users.items()}
        if hasattr(s, "remote_sessions"):
            e["remote_sessions"] = list(s.remote_sessions.keys())
            e["local_session"] = None if s.local_session is None else s.local_session.uuid
        if hasattr(s, "dns_cache"):
            e["dns_cache"] = _plain(s.dns_cache)
        if hasattr(s, "history"):
            e["history_len"] = len(s.history)
        sw[name] = e
    d["software"] = sw
    fs = {}
    for fo in list(node.file_system.folders.values()) + list(node.file_system.deleted_folders.values()):
        fs[f"{fo.name}:{fo.uuid}"] = {"scan_countdown": fo.scan_countdown, "restore_countdown": fo.restore_countdown,
                                      "red_scan_countdown": fo.red_scan_countdown, "deleted": fo.deleted,
                                      "files": sorted((f.name, f.uuid, f.deleted, f.health_status.name, f.visible_health_status.name, f.num_access)
                                                      for f in list(fo.files.values()) + list(fo.deleted_files.values()))}
    d["fs"] = fs
    d["nic"] = {str(p): (n.enabled, _plain(n.nmne)) for p, n in node.network_interface.items()}
    return d


def full(sim):
    st = {"state": _plain(sim.describe_state()), "extra": {}}
    for node in sim.network.nodes.values():
        st["extra"][node.config.hostname] = _plain(node_extra(node))
    st["extra"]["__airspace__"] = _plain(dict(sim.network.airspace.bandwidth_load))
    return st


def first_diff(a, b, path=""):
    if type(a) != type(b) and not (isinstance(a, (int, float)) and isinstance(b, (int, float))):
        return path, a, b
    if isinstance(a, dict):
        for k in a:
            if k not in b:
                return f"{path}/{k}", a[k], "<absent>"
        for k in b:
            if k not in a:
                return f"{path}/{k}", "<absent>", b[k]
        for k in a:
            r = first_diff(a[k], b[k], f"{path}/{k}")
            if r:
                return r
        return None
    if isinstance(a, list):
        if len(a) != len(b):
            return f"{path}[len]", len(a), len(b)
        for i, (x, y) in enumerate(zip(a, b)):
            r = first_diff(x, y, f"{path}[{i}]")
            if r:
                return r
        return None
    if a != b:
        return path, a, b
    return None


class Normaliser:
    """replace uuids / MAC addresses by first-occurrence ordinals so two runs compare 'up to opaque identifiers'"""

    def __init__(self):
        self.u, self.m = {}, {}

    def _u(self, mo):
        return self.u.setdefault(mo.group(0), f"<uuid{len(self.u)}>")

    def _m(self, mo):
        return self.m.setdefault(mo.group(0), f"<mac{len(self.m)}>")

    def s(self, x):
        if isinstance(x, str):
            x = UUID_RE.sub(self._u, x)
            x = MAC_RE.sub(self._m, x)
            return x
        if isinstance(x, dict):
            return {self.s(k) if isinstance(k, str) else k: self.s(v) for k, v in x.items()}
        if isinstance(x, (list, tuple)):
            return [self.s(v) for v in x]
        return x
