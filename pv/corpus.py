"""Scenario corpus: shipped scenarios (as dicts) and generated scenario families (plain YAML-able dicts, so the
real PrimaiteGame.from_config path is what runs)."""
from __future__ import annotations

import copy
import os
import random

from . import boot

PKG = os.path.join(boot.REPO_SRC, "primaite", "config", "_package_data")
TEST_CFG = os.path.join(boot.REPO, "tests", "assets", "configs")

ALL_PORTS = ["ARP", "DNS", "HTTP", "POSTGRES_SERVER", "FTP", "NTP", "SSH", "HTTPS", "SMB", "FTP_DATA"]


def load_yaml(path):
    import yaml

    with open(path) as f:
        return yaml.safe_load(f)


def shipped(name):
    return load_yaml(os.path.join(PKG, name))


def test_asset(name):
    return load_yaml(os.path.join(TEST_CFG, name))


def game_block(max_len=64, seed=None, thresholds=None):
    g = {
        "max_episode_length": max_len,
        "ports": list(ALL_PORTS),
        "protocols": ["ICMP", "TCP", "UDP"],
        "thresholds": thresholds
        if thresholds is not None
        else {
            "nmne": {"high": 10, "medium": 5, "low": 0},
            "file_access": {"high": 10, "medium": 5, "low": 2},
            "app_executions": {"high": 5, "medium": 3, "low": 2},
        },
    }
    if seed is not None:
        g["seed"] = seed
    return g


IO_OFF = {
    "save_agent_actions": False,
    "save_step_metadata": False,
    "save_pcap_logs": False,
    "save_sys_logs": False,
    "save_agent_logs": False,
    "write_sys_log_to_terminal": False,
    "write_agent_log_to_terminal": False,
}


class Net:
    """Tiny DSL that emits the `simulation.network` block of a scenario file."""

    def __init__(self):
        self.nodes = []
        self.links = []
        self.extra = {}
        self._swport = {}

    def switch(self, name, num_ports=8, **kw):
        self.nodes.append({"type": "switch", "hostname": name, "num_ports": num_ports, **kw})
        self._swport[name] = 0
        return name

    def host(self, name, ip, mask="255.255.255.0", gw=None, kind="computer", **kw):
        n = {"type": kind, "hostname": name, "ip_address": ip, "subnet_mask": mask}
        if gw:
            n["default_gateway"] = gw
        n.update(kw)
        self.nodes.append(n)
        return name

    def router(self, name, ports, acl=None, routes=None, default_route=None, num_ports=5, **kw):
        n = {"type": "router", "hostname": name, "num_ports": num_ports,
             "ports": {i: {"ip_address": ip, "subnet_mask": mask} for i, (ip, mask) in ports.items()}}
        if acl is not None:
            n["acl"] = acl
        if routes:
            n["routes"] = routes
        if default_route:
            n["default_route"] = {"next_hop_ip_address": default_route}
        n.update(kw)
        self.nodes.append(n)
        return name

    def firewall(self, name, external, internal, dmz=None, acl=None, routes=None, default_route=None, **kw):
        ports = {"external_port": {"ip_address": external[0], "subnet_mask": external[1]},
                 "internal_port": {"ip_address": internal[0], "subnet_mask": internal[1]}}
        if dmz:
            ports["dmz_port"] = {"ip_address": dmz[0], "subnet_mask": dmz[1]}
        full_acl = {k: {} for k in ("internal_inbound_acl", "internal_outbound_acl", "dmz_inbound_acl",
                                    "dmz_outbound_acl", "external_inbound_acl", "external_outbound_acl")}
        full_acl.update(acl or {})
        n = {"type": "firewall", "hostname": name, "ports": ports, "acl": full_acl}
        if routes:
            n["routes"] = routes
        if default_route:
            n["default_route"] = {"next_hop_ip_address": default_route}
        n.update(kw)
        self.nodes.append(n)
        return name

    def link(self, a, ap, b, bp, bandwidth=None):
        l = {"endpoint_a_hostname": a, "endpoint_a_port": ap, "endpoint_b_hostname": b, "endpoint_b_port": bp}
        if bandwidth is not None:
            l["bandwidth"] = bandwidth
        self.links.append(l)

    def to_switch(self, sw, node, node_port=1, bandwidth=None):
        self._swport[sw] += 1
        self.link(sw, self._swport[sw], node, node_port, bandwidth)
        return self._swport[sw]

    def node(self, name):
        return next(n for n in self.nodes if n["hostname"] == name)

    def scenario(self, agents=None, max_len=64, seed=None, io=None, thresholds=None, nmne=None):
        net = {"nodes": copy.deepcopy(self.nodes), "links": copy.deepcopy(self.links), **copy.deepcopy(self.extra)}
        if nmne is not None:
            net["nmne_config"] = nmne
        return {
            "metadata": {"version": 3.0},
            "io_settings": dict(io if io is not None else IO_OFF),
            "game": game_block(max_len, seed, thresholds),
            "agents": copy.deepcopy(agents or []),
            "simulation": {"network": net},
        }


def build_game(cfg):
    """Real loading path on a private copy of the dict (from_config mutates its input)."""
    from primaite.game.game import PrimaiteGame

    return PrimaiteGame.from_config(copy.deepcopy(cfg))


# --------------------------------------------------------------------------------- small fixed topologies
def two_hosts(dur=(0, 0), bw=None, a_kw=None, b_kw=None):
    """client -- switch -- server"""
    n = Net()
    n.switch("sw1", 4, start_up_duration=0, shut_down_duration=0)
    n.host("pc_a", "192.168.1.10", kind="computer", start_up_duration=dur[0], shut_down_duration=dur[1], **(a_kw or {}))
    n.host("srv_b", "192.168.1.20", kind="server", start_up_duration=dur[0], shut_down_duration=dur[1], **(b_kw or {}))
    n.to_switch("sw1", "pc_a", bandwidth=bw)
    n.to_switch("sw1", "srv_b", bandwidth=bw)
    return n


def routed_two_subnets(acl=None, dur=(0, 0)):
    """pc_a (10.0.1.0/24) -- sw1 -- r1 -- sw2 -- srv_b (10.0.2.0/24)"""
    n = Net()
    n.switch("sw1", 4, start_up_duration=0, shut_down_duration=0)
    n.switch("sw2", 4, start_up_duration=0, shut_down_duration=0)
    n.router("r1", {1: ("10.0.1.1", "255.255.255.0"), 2: ("10.0.2.1", "255.255.255.0")},
             acl=acl if acl is not None else {0: {"action": "PERMIT"}}, start_up_duration=dur[0], shut_down_duration=dur[1])
    n.host("pc_a", "10.0.1.10", gw="10.0.1.1", start_up_duration=dur[0], shut_down_duration=dur[1])
    n.host("pc_c", "10.0.1.11", gw="10.0.1.1", start_up_duration=dur[0], shut_down_duration=dur[1])
    n.host("srv_b", "10.0.2.20", gw="10.0.2.1", kind="server", start_up_duration=dur[0], shut_down_duration=dur[1])
    n.link("sw1", 1, "r1", 1)
    n._swport["sw1"] = 1
    n.link("sw2", 1, "r1", 2)
    n._swport["sw2"] = 1
    n.to_switch("sw1", "pc_a")
    n.to_switch("sw1", "pc_c")
    n.to_switch("sw2", "srv_b")
    return n


def rnd(seed, *salt):
    return random.Random(f"{seed}:{':'.join(map(str, salt))}")
