#!/venv/bin/python
"""CLI: run.py <Cxx> [--tier quick|thorough] [--replay path] [--only substr] [--inproc] [-v]

Runs the check for one property against /repo's current working tree (see DESIGN.md).
Exit 0 held / 1 VIOLATION / 2 INCONCLUSIVE.
"""
import os
import sys

HERE = os.path.dirname(os.path.abspath(__file__))
if os.path.realpath(sys.executable) != os.path.realpath("/venv/bin/python") and not os.environ.get("PV_NO_REEXEC"):
    os.execv("/venv/bin/python", ["/venv/bin/python", os.path.abspath(__file__)] + sys.argv[1:])
sys.path.insert(0, HERE)
os.environ.setdefault("PYTHONHASHSEED", "0")
os.environ["PYTHONDONTWRITEBYTECODE"] = "1"
sys.dont_write_bytecode = True

from pv import harness  # noqa: E402

if __name__ == "__main__":
    if len(sys.argv) < 2:
        print(__doc__)
        sys.exit(64)
    mod = sys.argv[1].lower()
    if mod == "selftest":
        from pv import boot

        p = boot.boot()
        print("selftest ok: primaite", p.__version__, "from", p.__file__)
        sys.exit(0)
    sys.exit(harness.main(mod, sys.argv[2:]))
