#!/usr/bin/env python3
"""Regenerates MANIFEST.json from the table below (single source of truth for check registration)."""
import json, os

HERE = os.path.dirname(os.path.abspath(__file__))
props = [json.loads(l) for l in open(os.path.join(HERE, "properties.jsonl"))]
ids = [p["id"] for p in props]

# pid -> (technique, level text, level note)
CLAIMED = json.load(open(os.path.join(HERE, "checks.json")))

checks, na = [], []
for pid in ids:
    c = CLAIMED.get(pid)
    if not c or not c.get("claimed", True):
        na.append({"property_id": pid, "reason": (c or {}).get("reason", "check not yet implemented in this round (planned in DESIGN.md section 4)")})
        continue
    checks.append({
        "property_id": pid,
        "quick_cmd": f"./run.py {pid} --tier quick",
        "thorough_cmd": f"./run.py {pid} --tier thorough",
        "evidence_file": f"evidence/{pid}.json",
        "replay_cmd_template": f"./run.py {pid} --replay {{path}}",
        "engine": "pv",
        "level_claimed": {"category": "exploration", "text": c["level_text"], "design_ref": f"DESIGN.md section 4 / {pid}"},
        "level_note": c["level_note"],
        "technique": c["technique"],
    })
m = {
    "version": 1,
    "setup_cmd": "./run.py selftest",
    "hooks": {
        "guard": "PRIMAITE_VERIF",
        "enable": "no source hooks: all monitors are attached from /verif by wrapping classes at import time; checks set PRIMAITE_VERIF=1 and import primaite from /repo/src (working tree, no build step)",
        "baseline_off_cmd": "cd /repo && env -u PRIMAITE_VERIF /venv/bin/python -m pytest -ra -q -p no:cacheprovider --timeout=900 --continue-on-collection-errors",
        "source_commits": [],
        "add_only": True,
    },
    "engines": [{"name": "pv", "path": "pv/", "serves_properties": [c["property_id"] for c in checks],
                 "kind_free_text": "runtime monitors (reference-model oracles, invariants at hooks, paired-run differential, trace checkers) attached to the real PrimAITE code, driven by generated workloads in worker subprocesses"}],
    "checks": checks,
    "not_applicable": na,
    "notes": "Technique family: runtime monitoring. Exit 0 held / 1 VIOLATION / 2 INCONCLUSIVE (monitor starved, harness error). Known findings: known_findings.json.",
}
json.dump(m, open(os.path.join(HERE, "MANIFEST.json"), "w"), indent=1)
print("claimed", [c["property_id"] for c in checks], "n/a", [x["property_id"] for x in na])
