#!/bin/bash
# usage: tools/trycheck.sh <seeded-dir-name> <check> [run.py args...]  - apply a seeded patch in a scratch worktree and run one check against it
cd "$(dirname "$0")/.."
d=$1; c=$2; shift 2
wt=$(mktemp -d /tmp/pvtry-XXXX); rmdir $wt
git -C /repo worktree add -f --detach $wt HEAD -q >/dev/null 2>&1
(cd $wt && (git apply /verif/seeded/$d/patch.diff || git apply --3way /verif/seeded/$d/patch.diff)) || echo "PATCH DOES NOT APPLY"
out=$(mktemp -d /tmp/pvtryout-XXXX)
PV_REPO=$wt PV_OUT=$out ./run.py $c "$@" 2>&1 | grep -E "^(C[0-9]+ tier|VIOLATION|INCONCLUSIVE)" | cut -c1-500 | head -6
git -C /repo worktree remove --force $wt; rm -rf $out
