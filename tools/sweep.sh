#!/bin/bash
# usage: tools/sweep.sh <tier> <seed> [checks...]   - runs the registered checks one after another, prints one line per check
cd "$(dirname "$0")/.."
tier=$1; seed=$2; shift 2
checks=${@:-C01 C02 C03 C04 C05 C06 C07 C08 C09 C10 C11 C12 C13 C14 C15 C16 C17 C18 C19 C20}
for c in $checks; do
  out=$(VERIF_SEED=$seed ./run.py $c --tier $tier 2>&1); rc=$?
  echo "$c seed=$seed tier=$tier exit=$rc :: $(echo "$out" | grep -E "^$c tier" | tail -1)"
  echo "$out" | grep -E "^(VIOLATION|INCONCLUSIVE)" | cut -c1-600 | head -5
done
