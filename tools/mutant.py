#!/usr/bin/env python3
"""Seeded-change bookkeeping.

  mutant.py harvest <Cxx> <worktree>     copy patch + demo + meta from a sub-agent's scratch worktree into /verif/seeded/<id>/
  mutant.py verify  <seeded-dir> [--checks C01,C05] [--tier quick]
        fresh worktree of /repo HEAD under /tmp; demo on the original tree (must exit 0); apply patch; demo (must exit != 0);
        repository test-suite vs BASELINE stable_pass; then run the named checks (default: the property's own) with
        PV_REPO=<worktree>; record everything in <seeded-dir>/meta.json; remove the worktree.
  mutant.py reverse-fix <commit> <Cxx>   build a seeded dir from the REVERSE of a fix commit (regression seed)
"""
import json
import os
import shutil
import subprocess
import sys
import tempfile
import time

VERIF = os.path.dirname(os.path.dirname(os.path.abspath(__file__)))
REPO = "/repo"
PY = "/venv/bin/python"


def sh(cmd, cwd=None, env=None, timeout=3600):
    p = subprocess.run(cmd, shell=True, cwd=cwd, env=env, capture_output=True, text=True, timeout=timeout)
    return p.returncode, (p.stdout + p.stderr)


def harvest(pid, wt):
    seed = json.load(open(os.path.join(wt, "SEED.json"))) if os.path.exists(os.path.join(wt, "SEED.json")) else {}
    n = 1
    while os.path.exists(os.path.join(VERIF, "seeded", f"{pid}-{n}")):
        n += 1
    d = os.path.join(VERIF, "seeded", f"{pid}-{n}")
    os.makedirs(d)
    sh(f"git diff -- src > {os.path.join(d, 'patch.diff')}", cwd=wt)  # via the shell: keeps CRLF files byte-exact
    demo = seed.get("demo") or f"demo_{pid}.py"
    if os.path.exists(os.path.join(wt, demo)):
        shutil.copy(os.path.join(wt, demo), os.path.join(d, os.path.basename(demo)))
    meta = {"property": pid, "origin": "independent sub-agent given only the property text and a scratch worktree", "summary": seed.get("summary"),
            "needs": seed.get("needs"), "files_changed": seed.get("files_changed"), "demo": os.path.basename(demo), "agent_tests": seed.get("tests")}
    json.dump(meta, open(os.path.join(d, "meta.json"), "w"), indent=1)
    print(d)
    return d


def baseline_compare(junit):
    import xml.etree.ElementTree as ET

    base = json.load(open("/root/.vp/BASELINE.json"))["stable_pass"]
    res = {}
    for tc in ET.parse(junit).iter("testcase"):
        res[f"{tc.get('classname')}::{tc.get('name')}"] = not any(ch.tag in ("failure", "error", "skipped") for ch in tc)
    failed = [b for b in base if not res.get(b, False)]
    return len(base) - len(failed), failed


def verify(d, checks=None, tier="quick", tests=True):
    d = os.path.abspath(d)
    meta = json.load(open(os.path.join(d, "meta.json")))
    pid = meta["property"]
    checks = checks or [pid]
    wt = tempfile.mkdtemp(prefix="pvseed-", dir="/tmp")
    os.rmdir(wt)
    home = tempfile.mkdtemp(prefix="pvseedhome-", dir="/tmp")
    env = dict(os.environ, PYTHONPATH=os.path.join(wt, "src"), HOME=home, PYTHONDONTWRITEBYTECODE="1")
    env.pop("PRIMAITE_VERIF", None)
    out = {"verified_at_repo": sh("git rev-parse --short HEAD", cwd=REPO)[1].strip()}
    try:
        rc, o = sh(f"git worktree add -f --detach {wt} HEAD", cwd=REPO)
        assert rc == 0, o
        demo = meta.get("demo")
        if demo and os.path.exists(os.path.join(d, demo)):
            shutil.copy(os.path.join(d, demo), os.path.join(wt, demo))
            rc0, o0 = sh(f"{PY} {demo}", cwd=wt, env=env, timeout=1200)
            out["demo_on_original"] = {"exit": rc0, "tail": o0[-300:]}
        rc, o = sh(f"git apply {os.path.join(d, 'patch.diff')}", cwd=wt)
        if rc != 0:  # later commits touched neighbouring lines: fall back to a 3-way merge of the same patch
            rc, o = sh(f"git apply --3way {os.path.join(d, 'patch.diff')}", cwd=wt)
            out["applied_with"] = "git apply --3way"
        out["patch_applies"] = rc == 0
        if rc != 0:
            out["apply_error"] = o[-500:]
        else:
            if demo and os.path.exists(os.path.join(wt, demo)):
                rc1, o1 = sh(f"{PY} {demo}", cwd=wt, env=env, timeout=1200)
                out["demo_with_change"] = {"exit": rc1, "tail": o1[-300:]}
            if tests:
                junit = os.path.join(home, "junit.xml")
                t0 = time.time()
                sh(f"{PY} -m pytest -q -p no:cacheprovider --timeout=900 --continue-on-collection-errors --junitxml={junit}", cwd=wt, env=env, timeout=3000)
                passed, failed = baseline_compare(junit)
                out["baseline_with_change"] = {"stable_pass_still_passing": passed, "newly_failing": failed[:10], "wall_s": round(time.time() - t0)}
            else:
                out["baseline_with_change"] = "not re-run: this is the repository's own earlier code, which passed the baseline by definition"
            res = {}
            for c in checks:
                e2 = dict(os.environ, PV_REPO=wt, PV_OUT=home)
                rc, o = sh(f"./run.py {c} --tier {tier}", cwd=VERIF, env=e2, timeout=7200)
                lines = [l for l in o.splitlines() if l.startswith("VIOLATION")]
                res[c] = {"exit": rc, "violations": [l[:400] for l in lines[:6]], "n_violation_lines": len(lines),
                          "summary": [l for l in o.splitlines() if l.startswith(c.upper() + " tier")][-1:]}
            out["checks"] = res
            out["caught_by"] = [c for c, r in res.items() if r["exit"] == 1]
    finally:
        sh(f"git worktree remove --force {wt}", cwd=REPO)
        shutil.rmtree(home, ignore_errors=True)
    prev = meta.setdefault("verification", {}).get(tier)
    if prev and prev.get("patch_applies") and out.get("patch_applies"):  # merge: keep earlier demo / baseline results, update per-check results
        merged = dict(prev)
        for k, v in out.items():
            if k == "checks":
                merged.setdefault("checks", {}).update(v)
            elif k == "baseline_with_change" and not isinstance(v, dict) and isinstance(prev.get(k), dict):
                continue
            else:
                merged[k] = v
        merged["caught_by"] = sorted(c for c, r in merged.get("checks", {}).items() if r["exit"] == 1)
        out = merged
    meta["verification"][tier] = out
    json.dump(meta, open(os.path.join(d, "meta.json"), "w"), indent=1)
    print(json.dumps(out, indent=1)[:3000])
    return out


def reverse_fix(commit, pid):
    n = 1
    while os.path.exists(os.path.join(VERIF, "seeded", f"{pid}-fix{n}")):
        n += 1
    d = os.path.join(VERIF, "seeded", f"{pid}-fix{n}")
    os.makedirs(d)
    sh(f"git diff {commit} {commit}~1 -- src > {os.path.join(d, 'patch.diff')}", cwd=REPO)  # via the shell: keeps CRLF files byte-exact
    subj = sh(f"git log -1 --format=%s {commit}", cwd=REPO)[1].strip()
    json.dump({"property": pid, "origin": f"reverse of repository fix commit {commit} ({subj}): re-introduces a genuine defect the checks found",
               "summary": f"revert: {subj}", "needs": "see the corresponding 'fixed' entry in known_findings.json", "demo": None},
              open(os.path.join(d, "meta.json"), "w"), indent=1)
    print(d)
    return d


if __name__ == "__main__":
    a = sys.argv[1:]
    if a[0] == "harvest":
        harvest(a[1], a[2])
    elif a[0] == "verify":
        checks, tier = None, "quick"
        if "--checks" in a:
            checks = a[a.index("--checks") + 1].split(",")
        if "--tier" in a:
            tier = a[a.index("--tier") + 1]
        verify(a[1], checks, tier, tests="--no-tests" not in a)
    elif a[0] == "reverse-fix":
        reverse_fix(a[1], a[2])
