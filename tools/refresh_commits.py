#!/usr/bin/env python3
"""Re-resolve the commit hash of every fixed finding from its recorded commit subject (robust against rebases)."""
import json, subprocess, sys
p = "/verif/known_findings.json"
k = json.load(open(p))
log = subprocess.check_output(["git", "-C", "/repo", "log", "--format=%h %s"]).decode().splitlines()
subj = {l.split(" ", 1)[0]: l.split(" ", 1)[1] for l in log}
for f in k["findings"]:
    if f.get("status") != "fixed":
        continue
    if "subject" not in f:
        if f["commit"] in subj:
            f["subject"] = subj[f["commit"]]
        else:
            print("unknown commit", f["commit"], f["mech"]); continue
    match = [h for h, s in subj.items() if s == f["subject"]]
    if match:
        f["commit"] = match[0]
    else:
        print("subject not found:", f["subject"])
json.dump(k, open(p, "w"), indent=1)
