#!/usr/bin/env python3
"""Compare a junit xml of the repository's test-suite with BASELINE.json's stable_pass list."""
import json, sys
import xml.etree.ElementTree as ET

base = json.load(open("/root/.vp/BASELINE.json"))["stable_pass"]
tree = ET.parse(sys.argv[1])
res = {}
for tc in tree.iter("testcase"):
    name = f"{tc.get('classname')}::{tc.get('name')}"
    bad = any(ch.tag in ("failure", "error", "skipped") for ch in tc)
    res[name] = not bad
missing = [b for b in base if b not in res]
failed = [b for b in base if b in res and not res[b]]
print(f"baseline {len(base)}: passed {sum(1 for b in base if res.get(b))} failed {len(failed)} missing {len(missing)}")
for x in failed[:30]:
    print("FAILED", x)
for x in missing[:10]:
    print("MISSING", x)
sys.exit(1 if failed or missing else 0)
