#!/usr/bin/env python3
"""Prepare scratch worktrees for independent mutation sub-agents.

  seed_setup.py <prefix> <flavour-set> [Cxx ...]    e.g. seed_setup.py seed2 B C01 C02

Each worktree /tmp/<prefix>-Cxx is a detached checkout of /repo HEAD and receives only PROPERTY.txt (the property's text
and anchors from properties.jsonl) and INSTRUCTIONS.txt (generic task description; nothing from /verif's machinery).
"""
import json
import os
import subprocess
import sys

VERIF = os.path.dirname(os.path.dirname(os.path.abspath(__file__)))

FLAVOURS = {
    "A": "",
    "B": ("* Flavour required for this task: the change must be HISTORY- or ORDER-dependent - it shows only after a particular earlier "
          "event (an earlier episode, a reset, a delete/restore, a restart, a previous failure, a countdown that was interrupted) or only "
          "for a particular order of two operations; the same operations in the usual order must behave exactly as before.\n"),
    "C": ("* Flavour required for this task: the change must be CONFIGURATION-dependent - it shows only for a valid but unusual value "
          "or combination of scenario options (a duration of 0 or 1, a non-default threshold, an optional list with several entries, "
          "an option given at two levels, a node type other than the common one, a second instance of something); with the values the "
          "shipped example scenarios use, behaviour must be exactly as before.\n"),
    "D": ("* Flavour required for this task: the change must be INTERLEAVING- or FAULT-dependent - it shows only when two different actors "
          "(two agents in the same step, an agent's action and a timed completion in the same tick, a request and a node/service power "
          "event, a reply arriving while the request is still being handled) meet in a particular way; each actor alone, or the two in "
          "separate steps, must behave exactly as before.\n"),
    "E": ("* Flavour required for this task: the change must be BOUNDARY-dependent - it shows only at an edge of a valid range (the first "
          "or last position/slot/index, a count exactly at a threshold or one past it, an empty or single-element collection, the maximum "
          "number of something, equality of two values that usually differ); everywhere inside the range behaviour must be exactly as "
          "before.\n"),
    "F": ("* Flavour required for this task: the change must consist of TWO COOPERATING SITES - two small edits in different functions (or "
          "different files) each of which looks harmless or even like a clean-up on its own and, applied alone, leaves behaviour exactly as "
          "before; only both together break the property, and only for a multi-step sequence of operations (three or more distinct steps).\n"),
    "G": ("* Flavour required for this task: the change must be CROSS-SUBSYSTEM - it lives in a helper, base class or shared utility "
          "(not in the file that most obviously implements the property) and breaks the property only for one particular kind of component "
          "or caller (one node type, one service/application class, one interface type, one agent type) while every other kind keeps "
          "behaving exactly as before; ideally it also needs a second step (the component was restarted / re-installed / re-configured / "
          "the episode was reset) before it shows.\n"),
}

TEMPLATE = """You are a careful adversarial software engineer. You work ONLY inside the scratch git worktree {wt} (a checkout of the Python project PrimAITE, a discrete-timestep simulator of networks/hosts/services/attackers exposed as a Gymnasium environment; source under {wt}/src/primaite, tests under {wt}/tests). Do not read or touch anything under /verif or /repo, and do not use the network (there is none).

Read {wt}/PROPERTY.txt: it states one semantic property of PrimAITE that currently holds on this tree. Your job: design ONE small, realistic change to the source under {wt}/src/primaite (the kind of regression a maintainer could plausibly introduce: an off-by-one, a dropped guard, a reordered pair of statements, a stale cache, a wrong default, a refactor that looks equivalent, two sites that each look fine alone) that BREAKS the property, while the project still imports and the existing test suite still passes exactly as before.

Requirements for the change:
* It must need something specific to manifest - a particular sequence of operations, a particular configuration value, a second episode, a particular interleaving of agents/requests/ticks, an unusual but valid input - NOT something that ordinary use (e.g. the first step of the default scenario) would expose at once. Subtle beats blatant.
{flavour}* Keep it small (ideally 1-10 changed lines, one or two files). No new dependencies. Do not edit tests.
* It must be a different idea from the obvious first thing; think about which code paths the property depends on and pick a non-central one. Do not simply revert a recent commit (look at `git log -30 --oneline` and stay away from what those commits changed).

How to work:
1. Read the anchored source files named in PROPERTY.txt (under {wt}/src/primaite) until you understand how the property is implemented.
2. Make the change in the worktree.
3. Write a demonstration: a small standalone script {wt}/demo_{pid}.py (plain python, run as `cd {wt} && PYTHONPATH={wt}/src HOME=/tmp/{prefix}home-{pid} /venv/bin/python demo_{pid}.py`) that exercises the real PrimAITE code, exits 0 with the ORIGINAL code and exits 1 (with a one-line explanation printed) WITH your change. Verify both: use `git diff > /tmp/{prefix}-{pid}.patch; git checkout -- src; <run demo>; git apply /tmp/{prefix}-{pid}.patch` (NEVER use `git stash`: the stash is shared with other worktrees of this repository and other people are working in them) to run it on the original and on the changed tree. The demo must be deterministic.
4. Run the existing test suite with your change applied and confirm it still passes as before:
   `cd {wt} && PYTHONPATH={wt}/src HOME=/tmp/{prefix}home-{pid} /venv/bin/python -m pytest -q -p no:cacheprovider --timeout=900 --continue-on-collection-errors -q tests/unit_tests tests/integration_tests 2>&1 | tail -15`
   (about 1-2 minutes). NOTE: on the ORIGINAL tree that command reports about 525 passed and also ~40 pre-existing failures/errors (tests needing files that are not installed) - those are not yours; compare the set of failures before/after your change: it must be identical. If your change makes any previously passing test fail, revise the change (do not touch the test).
5. Leave the worktree with the change APPLIED (uncommitted), the demo script present, and write {wt}/SEED.json with keys: "property" ("{pid}"), "files_changed", "summary" (what the change is), "needs" (what specific sequence/input/interleaving it needs in order to manifest), "demo" ("demo_{pid}.py"), "tests" (what you ran and the pass/fail counts before and after).

Final answer: a short report (the diff, what it needs to manifest, demo result on original vs changed tree, test results).
"""


def main():
    prefix, fl = sys.argv[1], sys.argv[2]
    props = {json.loads(l)["id"]: json.loads(l) for l in open(os.path.join(VERIF, "properties.jsonl"))}
    ids = sys.argv[3:] or sorted(props)
    for pid in ids:
        p = props[pid]
        wt = f"/tmp/{prefix}-{pid}"
        subprocess.run(f"git -C /repo worktree remove --force {wt}", shell=True, capture_output=True)
        r = subprocess.run(f"git -C /repo worktree add -f --detach {wt} HEAD", shell=True, capture_output=True, text=True)
        assert r.returncode == 0, r.stderr
        a = p.get("anchors", {})
        txt = [f"PROPERTY {pid}: {p['title']}", "", "Statement:", p["statement"], "", "Quantifier (what it must hold for):", p["quantifier"]["text"], "",
               "Why the existing tests do not settle it:", p.get("why_tests_cant", ""), "", "Anchored source files:"]
        txt += [f"  - {f}" for f in a.get("files", [])]
        txt += ["", "State involved:"] + [f"  - {s['name']}: {s['meaning']} ({s['where']})" for s in a.get("state", [])]
        txt += ["", "Mechanisms:"] + [f"  - {m['name']} ({m['where']})" for m in a.get("mechanism", [])]
        txt += ["", "Where the property is observable:"] + [f"  - {o}" for o in a.get("observe_at", [])]
        open(os.path.join(wt, "PROPERTY.txt"), "w").write("\n".join(txt) + "\n")
        open(os.path.join(wt, "INSTRUCTIONS.txt"), "w").write(TEMPLATE.format(wt=wt, pid=pid, prefix=prefix, flavour=FLAVOURS[fl]))
        print(wt)


if __name__ == "__main__":
    main()
