#!/usr/bin/env python3
"""Regenerate the generated blocks of DESIGN.md (between <!-- BEGIN:x --> / <!-- END:x --> markers) from
known_findings.json and seeded/*/meta.json, so the document cannot drift from the committed records."""
import glob
import json
import os
import re

V = os.path.dirname(os.path.dirname(os.path.abspath(__file__)))


def findings():
    k = json.load(open(os.path.join(V, "known_findings.json")))["findings"]
    out = ["| prop | status | repo commit | mechanism key | what failed |", "|---|---|---|---|---|"]
    for f in sorted(k, key=lambda f: (f["status"] != "known", f["property"])):
        what = f["what"].split(" ", 2)[-1] if f["what"].startswith(("fixed:", "known:")) else f["what"]
        what = re.sub(r"^property=C\d+\s*", "", what)
        out.append(f"| {f['property']} | {f['status']} | {f.get('commit') or '—'} | `{f['mech']}` | {what.replace('|', '/')} |")
    return "\n".join(out)


def seeded():
    out = ["| seeded change | property | origin | what it changes | needs to manifest | demo orig/changed | baseline still passing | checks run → exit (1 = caught) |",
           "|---|---|---|---|---|---|---|---|"]
    for d in sorted(glob.glob(os.path.join(V, "seeded", "*"))):
        mp = os.path.join(d, "meta.json")
        if not os.path.exists(mp):
            continue
        m = json.load(open(mp))
        ver = m.get("verification", {})
        cells = []
        demo = base = "—"
        for tier, o in ver.items():
            for c, r in (o.get("checks") or {}).items():
                cells.append(f"{c}/{tier}→{r['exit']}")
            if "demo_on_original" in o:
                demo = f"{o['demo_on_original']['exit']}/{o.get('demo_with_change', {}).get('exit', '—')}"
            b = o.get("baseline_with_change")
            if isinstance(b, dict):
                base = f"{b['stable_pass_still_passing']}/526"
            elif b:
                base = "n/a (own earlier code)"
            if o.get("patch_applies") is False:
                cells.append("patch no longer applies")
        origin = "sub-agent" if "sub-agent" in (m.get("origin") or "") else ("reverse of fix" if "reverse" in (m.get("origin") or "") else (m.get("origin") or "")[:30])
        summ = (m.get("summary") or "").replace("|", "/").replace("\n", " ")[:260]
        needs = (m.get("needs") or "").replace("|", "/").replace("\n", " ")[:200]
        out.append(f"| {os.path.basename(d)} | {m['property']} | {origin} | {summ} | {needs} | {demo} | {base} | {', '.join(cells) or 'not yet run'} |")
    return "\n".join(out)


def main():
    p = os.path.join(V, "DESIGN.md")
    s = open(p).read()
    for name, fn in (("findings", findings), ("seeded", seeded)):
        pat = re.compile(rf"(<!-- BEGIN:{name} -->\n).*?(<!-- END:{name} -->)", re.S)
        if pat.search(s):
            s = pat.sub(lambda m: m.group(1) + fn() + '\n' + m.group(2), s)
    open(p, "w").write(s)


if __name__ == "__main__":
    main()
